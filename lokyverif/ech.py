"""E-CH: CrossHair contracts on the real loky byte-code.

A harness is a plain function in lokyverif/harness/*.py with a PEP-316 docstring
(`pre:` lines, `post: _`).  It imports the unmodified loky module, calls the real
function with symbolic arguments / stubbed collaborators and returns True iff the
observed behaviour matches the reference.  Each harness is analysed in its own
CrossHair process; a reachability twin (same pre, `post: False`) must produce a
counterexample, otherwise the run is inconclusive.  A counterexample of the
harness itself is re-executed concretely (no CrossHair) before it is reported.
"""
import importlib
import inspect
import os
import re
import subprocess
import sys
import tempfile
import time

from .common import (HELD, INCONCLUSIVE, VIOLATION, PY, VERIF, UnitResult,
                     fn_id, write_replay)

_CALL_RE = re.compile(r"when calling (.+)$")


def _strip_returns(expr: str) -> str:
    # "f(a=1) (which returns False)" -> "f(a=1)"
    m = re.search(r"\s+\(which (returns|raises)", expr)
    return expr[: m.start()] if m else expr


def _run_crosshair(target, timeout_s, extra_env=None, path_timeout=None):
    cmd = [PY, "-m", "crosshair", "check", "--report_all",
           "--per_condition_timeout", str(timeout_s)]
    if path_timeout:
        cmd += ["--per_path_timeout", str(path_timeout)]
    cmd.append(target)
    env = dict(os.environ)
    env["PYTHONPATH"] = VERIF + os.pathsep + env.get("PYTHONPATH", "")
    env["PYTHONHASHSEED"] = "0"
    if extra_env:
        env.update(extra_env)
    t0 = time.time()
    try:
        p = subprocess.run(cmd, capture_output=True, text=True, env=env,
                           timeout=timeout_s * 2 + 120, cwd=VERIF,
                           stdin=subprocess.DEVNULL)
        out = p.stdout + p.stderr
        rc = p.returncode
    except subprocess.TimeoutExpired as e:
        out = (e.stdout or b"").decode() if isinstance(e.stdout, bytes) else (e.stdout or "")
        out += "\nHARD-TIMEOUT"
        rc = -9
    return rc, out, time.time() - t0


def _classify(out):
    """-> (kind, text) with kind in confirmed|counterexample|notconfirmed|nopre|error"""
    lines = [l for l in out.splitlines() if l.strip()]
    for l in lines:
        if ": error:" in l and "when calling" in l:
            return "counterexample", l
    for l in lines:
        if "Confirmed over all paths" in l:
            return "confirmed", l
    for l in lines:
        if "Unable to meet precondition" in l:
            return "nopre", l
    for l in lines:
        if "Not confirmed" in l:
            return "notconfirmed", l
    return "error", "\n".join(lines[-8:])


def replay_concrete(module, call_expr):
    """Re-execute `call_expr` in module namespace with plain Python.
    Returns (reproduced: bool, description)."""
    code = (
        "import sys, importlib\n"
        f"m = importlib.import_module({module!r})\n"
        "ns = dict(vars(m))\n"
        "try:\n"
        f"    r = eval({call_expr!r}, ns)\n"
        "except Exception as e:\n"
        "    print('RAISED', type(e).__name__, e); sys.exit(3)\n"
        "print('RETURNED', repr(r)); sys.exit(0 if r else 4)\n"
    )
    env = dict(os.environ)
    env["PYTHONPATH"] = VERIF + os.pathsep + env.get("PYTHONPATH", "")
    p = subprocess.run([PY, "-c", code], capture_output=True, text=True, env=env,
                       timeout=300, cwd=VERIF, stdin=subprocess.DEVNULL)
    desc = (p.stdout + p.stderr).strip()[-600:]
    return p.returncode in (3, 4), desc


def _twin_source(module, fn):
    sig = inspect.signature(fn)
    doc = inspect.getdoc(fn) or ""
    pres = [l.strip() for l in doc.splitlines() if l.strip().startswith("pre:")]
    raises = [l.strip() for l in doc.splitlines() if l.strip().startswith("raises:")]
    params = []
    for n, p in sig.parameters.items():
        ann = p.annotation
        params.append((n, ann))
    src = [f"from {module} import *", f"import {module} as _m", "from typing import *", ""]
    args = ", ".join(f"{n}: {_ann_src(a)}" for n, a in params)
    call = ", ".join(n for n, _ in params)
    src.append(f"def twin({args}) -> bool:")
    src.append('    """')
    for l in pres + raises:
        src.append("    " + l)
    src.append("    post: False")
    src.append('    """')
    src.append(f"    return _m.{fn.__name__}({call})")
    return "\n".join(src) + "\n"


def _ann_src(a):
    if a is inspect.Parameter.empty:
        return "object"
    if isinstance(a, type):
        return a.__name__
    return str(a).replace("typing.", "")


def _resolve(spec):
    if not isinstance(spec, str):
        return spec
    modname, qual = spec.split(":")
    obj = importlib.import_module(modname)
    for part in qual.split("."):
        obj = getattr(obj, part)
    return obj


def H(prop, module, fname, timeout_s=90, functions=(), bounds="", assumptions=(), twin_timeout=40):
    """Unit spec for the runner."""
    return ("lokyverif.ech", "run_harness", dict(
        prop=prop, module=module, fname=fname, timeout_s=timeout_s,
        functions=list(functions), bounds=bounds, assumptions=list(assumptions),
        twin_timeout=twin_timeout))


def run_harness(prop, module, fname, timeout_s, twin_timeout=40, bounds="",
                functions=(), assumptions=()):
    """Run one CrossHair harness + its reachability twin."""
    t0 = time.time()
    mod = importlib.import_module(module)
    fn = getattr(mod, fname)
    name = f"{module.rsplit('.', 1)[-1]}.{fname}"
    res = UnitResult(name=name, engine="E-CH", status=INCONCLUSIVE, queries=1,
                     bounds=bounds or (inspect.getdoc(fn) or "").split("\n\n")[0][:300],
                     functions=[fn_id(_resolve(f)) for f in functions],
                     assumptions=list(assumptions))
    rc, out, dt = _run_crosshair(f"{module}.{fname}", timeout_s)
    res.solver_s += dt
    kind, text = _classify(out)
    res.detail = text.strip()[-400:]
    if kind == "counterexample":
        m = _CALL_RE.search(text)
        expr = _strip_returns(m.group(1).strip()) if m else None
        if expr is None:
            res.detail = "counterexample without call expression: " + text
        else:
            ok, desc = replay_concrete(module, expr)
            if ok:
                res.status = VIOLATION
                res.counterexample = {"call": expr, "concrete_replay": desc}
                res.signature = f"{name}:{expr}"
                res.replay = write_replay(prop, name, {
                    "property": prop, "engine": "E-CH", "module": module,
                    "call": expr, "crosshair": text, "concrete_replay": desc,
                    "how": f"cd /verif && PYTHONPATH=/verif .venv/bin/python -c "
                           f"\"from {module} import *; print({expr})\"",
                })
            else:
                res.detail = f"counterexample did not replay concretely ({desc}): {text}"
        res.wall_s = time.time() - t0
        return res
    if kind != "confirmed":
        res.detail = f"{kind}: {text}"[-500:]
        res.wall_s = time.time() - t0
        return res
    # Confirmed: now the reachability twin must be refuted.
    with tempfile.TemporaryDirectory(prefix="lokyverif-twin-") as d:
        tpath = os.path.join(d, f"twin_{fname}.py")
        with open(tpath, "w") as f:
            f.write(_twin_source(module, fn))
        rc2, out2, dt2 = _run_crosshair(tpath, twin_timeout)
    res.solver_s += dt2
    kind2, text2 = _classify(out2)
    res.witness_ok = kind2 == "counterexample"
    if not res.witness_ok:
        res.detail = f"vacuity twin not refuted ({kind2}): {text2}"[-500:]
        res.wall_s = time.time() - t0
        return res
    m = _CALL_RE.search(text2)
    if m:
        res.samples.append(_strip_returns(m.group(1).strip()).replace("twin(", fname + "(", 1))
    res.status = HELD
    res.discharged = 1
    res.wall_s = time.time() - t0
    return res
