"""Re-execute a recorded counterexample (written by a failing check) on the real code."""
import json
import sys

from .ech import replay_concrete


def main():
    path = sys.argv[1]
    with open(path) as f:
        rp = json.load(f)
    eng = rp.get("engine")
    if eng == "E-CH":
        ok, desc = replay_concrete(rp["module"], rp["call"])
        print(("REPRODUCED " if ok else "NOT-REPRODUCED ") + desc)
        return 1 if ok else 0
    if eng == "E-SYM":
        from . import esym_units
        return esym_units.replay(rp)
    if eng == "E-TS":
        from .ets import replay as r
        return r.replay_file(rp)
    print("unknown engine", eng)
    return 2


if __name__ == "__main__":
    sys.exit(main())
