"""Re-execute a recorded counterexample (written by a failing check) on the real code."""
import json
import sys

from .ech import replay_concrete


def main():
    path = sys.argv[1]
    with open(path) as f:
        rp = json.load(f)
    eng = rp.get("engine")
    if eng == "E-CH":
        ok, desc = replay_concrete(rp["module"], rp["call"])
        print(("REPRODUCED " if ok else "NOT-REPRODUCED ") + desc)
        return 1 if ok else 0
    if eng == "E-SYM":
        from . import esym_units
        return esym_units.replay(rp)
    if eng == "E-TS":
        if rp.get("model") == "M_exec":
            from .ets import units_exec
            return units_exec.replay_file(rp)
        from .ets import units_cond
        return units_cond.replay_file(rp)
    print("unknown engine", eng)
    return 2


if __name__ == "__main__":
    sys.exit(main())
