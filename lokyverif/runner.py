"""./vcheck Cxx [--tier quick|thorough] [--only substr] [--jobs N]

exit 0: every obligation discharged (known findings, if any, printed as
        KNOWN-FINDING lines);
exit 1: a replayed counterexample that known_findings.json does not list
        (line `VIOLATION property=<id> replay=<path>`);
exit 2: inconclusive (timeout / unknown / unsupported construct /
        counterexample that does not replay / vacuity twin not refuted).
"""
import argparse
import concurrent.futures as cf
import importlib
import os
import re
import sys
import time
import traceback

from .common import (HELD, INCONCLUSIVE, VIOLATION, UnitResult, load_known,
                     write_evidence)


def _run_unit(spec):
    modname, fname, kwargs = spec
    t0 = time.time()
    try:
        mod = importlib.import_module(modname)
        r = getattr(mod, fname)(**kwargs)
        if r.wall_s == 0:
            r.wall_s = time.time() - t0
        return r
    except BaseException as e:  # noqa  (runner boundary, not harness code)
        return UnitResult(name=f"{modname}.{fname}({kwargs})", engine="?",
                          status=INCONCLUSIVE, queries=1,
                          detail="unit crashed: " + "".join(
                              traceback.format_exception(type(e), e, e.__traceback__))[-1500:],
                          wall_s=time.time() - t0)


def main(argv=None):
    ap = argparse.ArgumentParser()
    ap.add_argument("prop")
    ap.add_argument("--tier", default=os.environ.get("VERIF_TIER", "quick"),
                    choices=["quick", "thorough"])
    ap.add_argument("--only", default=None, help="run only units whose name contains this")
    ap.add_argument("--jobs", type=int, default=int(os.environ.get("VERIF_JOBS", "14")))
    ap.add_argument("--list", action="store_true")
    a = ap.parse_args(argv)
    prop = a.prop.upper()
    seed = int(os.environ.get("VERIF_SEED", "0") or 0)
    t0 = time.time()
    pm = importlib.import_module(f"lokyverif.props.{prop.lower()}")
    specs = pm.units(a.tier)
    if a.only:
        specs = [s for s in specs if a.only in (s[1] + str(s[2]))]
    if a.list:
        for s in specs:
            print(s)
        return 0
    # VERIF_SEED only permutes the order in which obligations are discharged.
    if seed:
        import random
        random.Random(seed).shuffle(specs)
    results = []
    with cf.ProcessPoolExecutor(max_workers=max(1, min(a.jobs, len(specs) or 1))) as ex:
        for r in ex.map(_run_unit, specs):
            results.append(r)
            print(f"[{prop}] {r.engine:5s} {r.status:12s} {r.wall_s:7.1f}s {r.name} :: "
                  f"{(r.detail or '').splitlines()[-1][:160] if r.detail else ''}", flush=True)

    known = [k for k in load_known() if prop in k.get("properties", []) and k.get("status") == "known"]
    n_viol = 0
    inconclusive = [r for r in results if r.status == INCONCLUSIVE]
    printed = set()
    for r in results:
        for line in r.known:
            if line not in printed:
                printed.add(line)
                print(f"KNOWN-FINDING: property={prop} {line}")
        if r.status == VIOLATION:
            match = None
            for k in known:
                if k.get("match") and r.signature and re.search(k["match"], r.signature):
                    match = k
                    break
            if match is not None:
                line = f"{match['id']} {match['what']}"
                if line not in printed:
                    printed.add(line)
                    print(f"KNOWN-FINDING: property={prop} {line}")
            else:
                n_viol += 1
                print(f"VIOLATION property={prop} replay={r.replay}")
                print(f"  unit={r.name} counterexample={r.counterexample}")
    # findings listed for this property that no unit of this run reaches (crash points inside the stdlib queue, half-sent
    # messages, ...): still printed, marked as recorded-only
    for k in known:
        if not any(line.startswith(k["id"] + " ") for line in printed):
            line = (f"{k['id']} {k['what']} [recorded in known_findings.json; outside the bounds of the registered "
                    f"checks of {prop}, not re-examined by this run]")
            printed.add(line)
            print(f"KNOWN-FINDING: property={prop} {line}")
    level = getattr(pm, "LEVEL", "other")
    write_evidence(prop, a.tier, seed, level, results, time.time() - t0, n_viol,
                   getattr(pm, "EXPLANATION", ""), getattr(pm, "ASSUMPTIONS", ()))
    if n_viol:
        return 1
    if inconclusive:
        for r in inconclusive:
            print(f"INCONCLUSIVE property={prop} unit={r.name}: {r.detail[-600:]}")
        return 2
    print(f"[{prop}] held: {sum(r.discharged for r in results)}/{sum(r.queries for r in results)} "
          f"obligations discharged in {time.time() - t0:.1f}s")
    return 0


if __name__ == "__main__":
    sys.exit(main())
