"""C14 — synchronisation primitives keep their contracts under every interleaving."""
import itertools

from ..ech import H

LEVEL = "model_checking"
ENGINE = "E-TS+E-CH"
TECHNIQUE = ("bounded model checking (z3, bit-vector state, symbolic schedule and timeout instants) of a transition "
             "system compiled from the current AST of Condition/Event/SemLock; every witness and counterexample trace "
             "replayed on the real classes; constructors/pickling by CrossHair")
EXPLANATION = (
    "E-TS: Condition.wait/notify/notify_all, Event.is_set/set/clear/wait and the SemLock context-manager methods are "
    "compiled from /repo's current source into guarded transitions over the C SemLock model; z3 decides, for every "
    "interleaving and every timeout instant within K fused steps (K is checked to be a completeness threshold of "
    "the scenario: no run is longer), that no internal assert fails, no exception escapes, every waiter registered "
    "before a completed notify_all returns, notify wakes at most one (exactly one without time-outs, at least one "
    "leaves wait otherwise), wait returns holding the lock with its recursion count and returns False only through "
    "the timeout transition, the semaphores are back to a reusable state after the burst, Event.wait/is_set return "
    "the flag's value, and set/clear/is_set never block for ever. Every sat answer (witness or counterexample) is "
    "replayed step by step on the real loky classes running in real threads over a Python twin of the SemLock model.")
ASSUMPTIONS = [
    "the C SemLock itself (mutual exclusion, cross-process behaviour, refusal of over-release) is trusted: loky adds no code there",
    "bounds: 2 waiters (thorough: 3), <= 1 extra notifier call of symbolic kind (thorough: 2), one wait per waiter; more threads/calls are outside the claim",
    "'between processes': per-process (count,last_tid) of the SemLock is modelled; real shared memory is not",
]
C = "lokyverif.harness.c14_ctor"


def U(name, cfg, K, timeout_s=1200):
    return ("lokyverif.ets.units_cond", "cond_unit", dict(prop="C14", name=name, cfg=cfg, K=K, timeout_s=timeout_s))


def units(tier):
    u = [
        U("cond.2w_final_all", dict(waiters=2, notifiers=0, final="notify_all"), 34),
        U("cond.2w_single_notify", dict(waiters=2, notifiers=0, final="notify"), 34),
        U("cond.2w_final_all.Lock", dict(waiters=2, notifiers=0, final="notify_all", lock_cls="Lock"), 34),
        U("cond.2w_final_all.reentrant", dict(waiters=2, notifiers=0, final="notify_all", reentrant=True), 40),
        U("cond.2w_final_all.mixed_depth", dict(waiters=2, notifiers=0, final="notify_all", reentrant="mixed"), 38),
        U("cond.2w_final_all.interrupt", dict(waiters=2, notifiers=0, final="notify_all", interrupt=True), 40),
        U("cond.2w_final_all.xproc", dict(waiters=2, notifiers=0, final="notify_all", same_process=False), 34),
        U("event.2w_1s", dict(kind="event", waiters=2, setters=1), 38),
        U("event.1w_1s_1c_1p", dict(kind="event", waiters=1, setters=1, clearers=1, probers=1), 40),
        H("C14", C, "check_constructors", 300, ["loky.backend.synchronize:Lock.__init__", "loky.backend.synchronize:RLock.__init__",
          "loky.backend.synchronize:Semaphore.__init__", "loky.backend.synchronize:BoundedSemaphore.__init__",
          "loky.backend.synchronize:SemLock.__getstate__", "loky.backend.synchronize:SemLock.__setstate__"], "4 classes, value 0..6"),
        H("C14", C, "check_wait_for", 300, ["loky.backend.synchronize:Condition.wait_for"], "predicate true from its 1st..5th evaluation, timeout none or 1..6 ticks, 1..3 ticks per wait"),
        H("C14", C, "check_context_factories", 300, ["loky.backend.context:LokyContext.Lock", "loky.backend.context:LokyContext.Condition",
          "loky.backend.context:LokyContext.Event"], "6 factory methods"),
    ]
    if tier == "thorough":
        for t1, t2, ua in itertools.product([None, 1.0], [None, 1.0], [True, False]):
            if t1 and t2:
                continue  # both waiters timing out + an extra notifier: > 900 s per cube, outside the claim
            if t1 and not t2:
                continue  # symmetric to (None, 1.0)
            u.append(U(f"cond.2w1n_final_all[{t1},{t2},{ua}]",
                       dict(waiters=2, notifiers=1, final="notify_all", fixed={"in.timeout.1": t1, "in.timeout.2": t2, "in.all.0": ua}), 46, 3000))
        u.append(U("cond.2w_final_all.interrupt.Lock", dict(waiters=2, notifiers=0, final="notify_all", interrupt=True, lock_cls="Lock"), 40, 3000))
        u.append(U("cond.2w_single_notify.interrupt", dict(waiters=2, notifiers=0, final="notify", interrupt=True), 40, 3000))
        u.append(U("cond.2w_single_notify.Lock", dict(waiters=2, notifiers=0, final="notify", lock_cls="Lock"), 34))
        u.append(U("event.2w_1s.xproc", dict(kind="event", waiters=2, setters=1, same_process=False), 38))
        u.append(U("event.2w_1s_1c", dict(kind="event", waiters=2, setters=1, clearers=1), 46, 3000))
    return u
