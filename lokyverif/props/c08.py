"""C08 — parallelism never exceeds max_workers and is actually delivered."""
from ..ech import H

LEVEL = "model_checking"
ENGINE = "E-CH+E-SYM+E-TS"
EXPLANATION = (
    "Step contracts on the real spawn path (CrossHair/z3): _adjust_process_count from an arbitrary process table "
    "spawns exactly max(0, max_workers-len) under the management lock and never exceeds; _ensure_executor_running "
    "tops up iff len != max_workers before the manager is started; the pid-message branch of process_result_item "
    "re-spawns only when len < max_workers, under the lock, up to max_workers. E-SYM: call-queue capacity "
    "2*max_workers+EXTRA_QUEUED_CALLS >= max_workers+1 for every max_workers >= 1. |processes| <= max_workers is "
    "preserved by each step, hence by every history of steps. E-TS slice x3: a worker leaving on its idle time-out "
    "while a user thread submits (real process_result_item / submit / _adjust_process_count, all interleavings, "
    "replayed): the pool is topped up again whenever work is pending, and never beyond max_workers.")
ASSUMPTIONS = [
    "'tasks executing concurrently <= registered workers' because a worker runs one call item at a time (sequential loop of _process_worker)",
    "interleavings between submitters and the manager: searched in slice x3 (max_workers=1, one leaving worker); elsewhere serialised by the management lock, which the harness checks is held at every Process() creation",
]
P = "lokyverif.harness.c08_pool_size"
PE = "loky.process_executor:"


def SL(name, builder, K, timeout_s=1500, params=None):
    return ("lokyverif.ets.units_exec", "slice_unit", dict(prop="C08", name=name, builder=builder, K=K,
                                                            timeout_s=timeout_s, params=params))


def units(tier):
    t = 900 if tier == "thorough" else 300
    return [
        SL("slice.worker_exit_vs_submit", "x3_worker_exit_vs_submit", 50),
        H("C08", P, "check_adjust", t, [PE + "ProcessPoolExecutor._adjust_process_count"], "0..4 registered, max_workers 1..4"),
        H("C08", "lokyverif.harness.c08_pool_size", "check_adjust_start_failure", 300, ["loky.process_executor:ProcessPoolExecutor._adjust_process_count"],
          "0..2 registered, max_workers 1..4, the k-th Process.start() of the top-up fails (k 0..3)"),
        H("C08", P, "check_ensure_running", t, [PE + "ProcessPoolExecutor._ensure_executor_running"], "0..4 registered, max_workers 1..4"),
        H("C08", P, "check_pid_message", t, [PE + "_ExecutorManagerThread.process_result_item"], "1..3 workers, max_workers 1..3, pending/running counts 0..3, executor alive or collected"),
        H("C08", "lokyverif.harness.c10_resize", "check_resize_aborted", 300, ["loky.reusable_executor:_ReusablePoolExecutor._resize"],
          "old != new in 1..3, 0..old live workers; the wait for running jobs is aborted by an exception: nothing of the resize may have happened"),
        H("C08", "lokyverif.harness.c10_resize", "check_resize", t, ["loky.reusable_executor:_ReusablePoolExecutor._resize"], "old/new 1..3"),
        ("lokyverif.esym_units", "c08_queue_capacity", {}),
    ]
