"""C18 — every worker is a fresh, initialised interpreter with only intended inheritance."""
from ..ech import H

ENGINE = "E-SYM+E-CH"
LEVEL = "other"
EXPLANATION = (
    "Bounded symbolic execution (CrossHair/z3) of the real fork_exec (environment merge, close_fds, pass_fds, error "
    "pipe), the real Popen._launch (keep-list = payload pipe, sentinel pipe, both tracker fds and descriptors pickled "
    "inside the process object; parent-side closes), LokyProcess defaults and the init_main flag round trip, and the "
    "real _adjust_process_count -> _process_worker composition (initializer first, exactly once, failure means no task "
    "is ever served; the only spawn site). Exit-status translation (Popen.poll) is decided by E-SYM over all 16-bit "
    "status words.")
ASSUMPTIONS = [
    "_posixsubprocess.fork_exec (C) really closes everything not in pass_fds; /proc/<pid>/fd of a real child is outside",
    "that __main__ is not re-executed inside runpy is outside; only the presence of the init_main_* key and the call of _fixup_main_* are checked",
    "os.W* macros are modelled by the Linux bit formulas and validated against the real os.W* on all 65536 words each run",
]
M = "lokyverif.harness.c18_spawn"
P = "lokyverif.harness.c08_pool_size"


def units(tier):
    t = 1500 if tier == "thorough" else 700
    u = [
        H("C18", M, "check_fork_exec", t, ["loky.backend.fork_exec:fork_exec"], "parent env 2 keys, overlay 2 keys (absent/''/values with '='), <=3 distinct fds, exec fails or not"),
        H("C18", M, "check_fork_exec_twice", t, ["loky.backend.fork_exec:fork_exec"], "two spawns with the same env= mapping, parent environment changed in between (2 keys x absent/2 values)"),
        H("C18", "lokyverif.harness.c18_spawn", "check_popen_fork_failure", t, ["loky.backend.popen_loky_posix:Popen.__init__", "loky.backend.popen_loky_posix:Popen._launch"],
          "fork/exec failing 0..2 times (EAGAIN / ENOMEM) before it succeeds; 0..1 extra inherited handle"),
        H("C18", M, "check_launch", t, ["loky.backend.popen_loky_posix:Popen._launch", "loky.backend.popen_loky_posix:Popen.duplicate_for_child"], "<=2 extra fds pickled in the process object, tracker fds, env overlay, init_main flag"),
        H("C18", M, "check_process_defaults", t, ["loky.backend.process:LokyProcess.__init__", "loky.backend.process:LokyInitMainProcess.__init__"], "both process classes"),
        H("C18", "lokyverif.harness.c12_tracker_ctl", "check_identity_inherited", t, ["loky.backend.spawn:get_preparation_data", "loky.backend.spawn:prepare"], "init_main flag symbolic"),
        H("C18", P, "check_worker_depth_and_init", t, ["loky.process_executor:_process_worker", "loky.process_executor:ProcessPoolExecutor._adjust_process_count"], "initializer ok / raises Exception / SystemExit / KeyboardInterrupt; 0..2 tasks"),
        H("C18", P, "check_adjust", t, ["loky.process_executor:ProcessPoolExecutor._adjust_process_count"], "0..4 registered, max_workers 1..4, context accepts env or not"),
        H("C18", P, "check_only_spawn_site", t, [], "AST scan of process_executor.py and reusable_executor.py"),
        ("lokyverif.esym_units", "c18_exit_status", {}),
        H("C18", M, "check_prepare_initializer", t, ["loky.initializers:_prepare_initializer", "loky.initializers:_chain_initializers", "loky.initializers:_ChainedInitializer.__call__"], "initializer None / callable / non-callable, viztracer initializer present or not"),
    ]
    return u
