"""C09 — get_reusable_executor returns a live, correctly configured singleton."""
from ..ech import H

LEVEL = "model_checking"
ENGINE = "E-CH+E-TS"
EXPLANATION = (
    "E-TS slice: two threads run the real get_reusable_executor (and _get_next_executor_id) compiled from the AST, from an "
    "arbitrary singleton state, constructor/shutdown/_resize as primitives: for every interleaving no two live singletons, "
    "ids strictly increasing, construction only under the factory lock, shutdown(wait=True) before replacement, no deadlock, "
    "callers with equal arguments get the same object (bounded model checking; traces replayed on the real function whose "
    "module globals are routed through a proxy by a mechanical AST rewrite). "
    "Inductive step on the real _ReusablePoolExecutor.get_reusable_executor (CrossHair/z3): the singleton "
    "pre-state (absent / healthy / broken / shut down, previous kwargs and size, next id) and all arguments are "
    "symbolic; constructor, shutdown and _resize of the class are recording stubs; the post-state and the order of "
    "recorded effects are compared with the statement. The step re-establishes the invariant, so call histories of "
    "any length follow by induction.")
ASSUMPTIONS = [
    "invariant: _next_executor_id > every id issued; _executor_kwargs are the kwargs _executor was built with",
    "shutdown(wait=True)/_resize/constructor themselves are decided elsewhere (C05/C06/C10); here only that they are called, in order, with the right arguments",
    "initializer/context identities range over 2-3 objects; reducers/env fixed to None",
    "racing callers: 2 threads, <= 3 executor objects, one varying configuration parameter, reuse='auto', kill_workers=False",
]
M = "lokyverif.harness.c09_reusable"


def units(tier):
    return [("lokyverif.ets.units_exec", "slice_unit", dict(prop="C09", name="slice.reusable_race", builder="x7_reusable_race",
                                                            K=60, timeout_s=2400)),
            H("C09", M, "check_factory_step", 1800 if tier == "thorough" else 700,
              ["loky.reusable_executor:_ReusablePoolExecutor.get_reusable_executor", "loky.reusable_executor:_get_next_executor_id"],
              "max_workers in {None,-1..3}, reuse in {True,False,'auto'}, context in {None, loky-like, fork-like}, prev size 1..3, next id 1..5; the wait of the old instance's shutdown may be interrupted"),
            H("C09", "lokyverif.harness.c10_resize", "check_resize_aborted", 300, ["loky.reusable_executor:_ReusablePoolExecutor._resize"],
              "old != new in 1..3, 0..old live workers; the wait for running jobs is aborted by an exception: nothing of the resize may have happened"),
            H("C09", "lokyverif.harness.c02_broken", "check_shutdown_twice", 300, ["loky.process_executor:ProcessPoolExecutor.shutdown"],
              "shutdown(wait=False) followed by shutdown(wait=*, kill_workers=*) on the same object"),
            H("C09", M, "check_factory_reducers", 300, ["loky.reusable_executor:_ReusablePoolExecutor.get_reusable_executor"],
              "previous and new request each with one of 4 reducer configurations, reuse in {True,False,'auto'}, previous instance healthy or shut down, other arguments equal or not"),
            H("C09", "lokyverif.harness.c02_broken", "check_shutdown_call", 300, ["loky.process_executor:ProcessPoolExecutor.shutdown"],
              "'the previous instance is completely shut down first': shutdown(wait=True, kill_workers=*) on an instance that an earlier shutdown(wait=False) already flagged still wakes and joins the manager thread (16 combinations)")]
