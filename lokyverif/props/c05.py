"""C05 — graceful shutdown drains and leaves nothing behind."""
from ..ech import H

LEVEL = "other"
EXPLANATION = (
    "Step contracts on the real methods (CrossHair/z3): shutdown_workers (every exit lock released exactly once, "
    "exactly one sentinel per worker, none when nobody is alive, never a blocking put, Full retried), "
    "join_executor_internals (queues and wakeup closed, every worker joined, nothing registered), "
    "flag_executor_shutting_down without kill_workers (nothing failed, nobody killed), submit after shutdown raises "
    "ShutdownExecutorError.")
ASSUMPTIONS = [
    "the schedule quantifier (where shutdown lands relative to dispatch/completion/time-outs) is NOT searched: no concurrent model is claimed for C05; genuine defects F1/F2 (recorded in known_findings.json, real-process repros under findings/) live in exactly that part",
    "Full is raised a symbolic number of times (<=3) and then the queue drains",
]
M = "lokyverif.harness.c02_broken"
PE = "loky.process_executor:_ExecutorManagerThread."


def units(tier):
    t = 900 if tier == "thorough" else 300
    return [
        H("C05", M, "check_shutdown_workers", t, [PE + "shutdown_workers", PE + "get_n_children_alive"], "0..3 workers each alive or not, Full raised 0..3 times"),
        H("C05", M, "check_join_internals", t, [PE + "join_executor_internals"], "0..3 workers each alive or not"),
        H("C05", M, "check_flag_shutting_down", t, [PE + "flag_executor_shutting_down"], "0..3 pending, 0..3 workers, kill flag symbolic"),
        H("C05", M, "check_shutdown_call", t, ["loky.process_executor:ProcessPoolExecutor.shutdown"], "wait / kill_workers / manager started: all 8 combinations"),
        H("C05", "lokyverif.harness.c03_steps", "check_submit_step", t, ["loky.process_executor:ProcessPoolExecutor.submit"], "submit after shutdown raises ShutdownExecutorError"),
    ]
