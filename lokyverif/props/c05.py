"""C05 — graceful shutdown drains and leaves nothing behind."""
from ..ech import H

LEVEL = "model_checking"
ENGINE = "E-CH+E-TS"
EXPLANATION = (
    "E-TS slices: the real shutdown(wait=False) racing with the manager thread's wait on an idle pool (the manager must "
    "learn about the request) and with a worker leaving while work is pending (bounded model checking over all "
    "interleavings, replayed on the real code). "
    "Step contracts on the real methods (CrossHair/z3): shutdown_workers (every exit lock released exactly once, "
    "exactly one sentinel per worker, none when nobody is alive, never a blocking put, Full retried), "
    "join_executor_internals (queues and wakeup closed, every worker joined, nothing registered), "
    "flag_executor_shutting_down without kill_workers (nothing failed, nobody killed), submit after shutdown raises "
    "ShutdownExecutorError.")
ASSUMPTIONS = [
    "the schedule quantifier is searched only in two slices (shutdown(wait=False) vs idle manager; vs a leaving worker); other placements of shutdown only through the step contracts; finding F1 (fixed) came from the second slice",
    "Full is raised a symbolic number of times (<=3) and then the queue drains",
]
M = "lokyverif.harness.c02_broken"
PE = "loky.process_executor:_ExecutorManagerThread."


def SL(name, builder, K, timeout_s=1500, params=None):
    return ("lokyverif.ets.units_exec", "slice_unit", dict(prop="C05", name=name, builder=builder, K=K,
                                                            timeout_s=timeout_s, params=params))


def units(tier):
    t = 900 if tier == "thorough" else 300
    extra = []
    if tier == "thorough":
        extra = [H("C05", M, "check_run_loop_4", 3000, [PE + "run"], "exactly 4 turns of the manager loop, shutdown flag raised at turn 0..4")]
    return extra + [
        SL("slice.shutdown_nowait_vs_wait", "x5_shutdown_nowait_vs_wait", 30),
        SL("slice.worker_exit_vs_shutdown_nowait", "x3_worker_exit_vs_submit", 44, params={"with_user": False, "shutdown_thread": True}),
        H("C05", "lokyverif.harness.c04_contain", "check_feed", t, ["loky.backend.queues:Queue._feed"],
          "'every already-submitted task runs': the feeder gives the queue slot back exactly once per failed item whatever the failure is (PicklingError, SystemExit from a __reduce__, struct.error / OSError at send), <=4 items"),
        H("C05", M, "check_shutdown_workers", t, [PE + "shutdown_workers", PE + "get_n_children_alive"], "0..3 workers each alive or not, Full raised 0..3 times"),
        H("C05", M, "check_shutdown_workers_small_queue", t, [PE + "shutdown_workers", PE + "get_n_children_alive"],
          "1..3 workers each idle or already past its own exit announcement, call queue with 1..2 free slots (a queue nobody ever empties is the documented give-up path, outside)"),
        H("C05", M, "check_join_internals", t, [PE + "join_executor_internals"], "0..3 workers each alive or not"),
        H("C05", M, "check_flag_shutting_down", t, [PE + "flag_executor_shutting_down"], "0..3 pending, 0..3 workers, kill flag symbolic"),
        H("C05", "lokyverif.harness.c02_broken", "check_shutdown_twice", 300, ["loky.process_executor:ProcessPoolExecutor.shutdown"],
          "shutdown(wait=False) followed by shutdown(wait=*, kill_workers=*) on the same object"),
        H("C05", M, "check_shutdown_call", t, ["loky.process_executor:ProcessPoolExecutor.shutdown"], "wait / kill_workers / manager started: all 8 combinations"),
        H("C05", M, "check_exit_registry", t, ["loky.process_executor:ProcessPoolExecutor._start_executor_manager_thread", "loky.process_executor:_python_exit", "loky.process_executor:ProcessPoolExecutor.shutdown"],
          "1..3 executors released by shutdown(wait=False) / plain drop / shutdown(wait=True), with or without the interpreter-exit hook running first"),
        H("C05", "lokyverif.harness.c02_broken", "check_run_loop", t, ["loky.process_executor:_ExecutorManagerThread.run"],
          "1..3 turns of the manager loop, each a wake-up / a result / a broken pool; shutdown flag raised at turn 0..3; work left or not after each turn"),
        H("C05", M, "check_gc_wakeup", t, [PE + "__init__"], "weakref callback of the real manager-thread constructor; shutdown lock free or held by another thread; multiprocessing module already torn down or not"),
        H("C05", M, "check_flags_step", t, ["loky.process_executor:_ExecutorFlags.flag_as_shutting_down"], "all 24 combinations of previous flags and request"),
        H("C05", "lokyverif.harness.c03_steps", "check_submit_step", t, ["loky.process_executor:ProcessPoolExecutor.submit"], "submit after shutdown raises ShutdownExecutorError"),
    ]
