"""C16 — wrap_non_picklable_objects is behaviour-preserving."""
from ..ech import H

LEVEL = "other"
EXPLANATION = (
    "Bounded symbolic execution (CrossHair/z3) of the real wrapper classes through real pickle round trips: "
    "keep_wrapper, number of round trips, attribute looked up (incl. _obj/_keep_wrapper/missing), call argument and "
    "constructor arguments are symbolic; object kinds are an enumerated list of exemplars.")
ASSUMPTIONS = [
    "'any object cloudpickle can serialise' is outside the claim: exemplars = lambda, closure, recursive function, callable instance, plain instance, instance that plain pickle rejects, and the three classes",
    "cloudpickle itself is trusted",
]
M = "lokyverif.harness.c16_wrapper"
W = "loky.cloudpickle_wrapper:"


def units(tier):
    t = 1200 if tier == "thorough" else 500
    fns = [W + "wrap_non_picklable_objects", W + "CloudpickledObjectWrapper.__reduce__",
           W + "CloudpickledObjectWrapper.__getattr__", W + "_reconstruct_wrapper"]
    return [
        H("C16", M, "check_object_wrapper", t, fns, "6 exemplars x keep_wrapper x 1..3 round trips x 6 attribute names x arg 0..3"),
        H("C16", M, "check_repickle_after_mutation", t, fns, "3 stateful exemplars x keep_wrapper: pickle, mutate the wrapped object, read through the wrapper, pickle the same wrapper again"),
        H("C16", M, "check_rewrap", t, fns, "6 exemplars already wrapped (inner keep_wrapper symbolic) wrapped again x keep_wrapper x 1..2 round trips"),
        H("C16", M, "check_class_wrapper", t, fns, "3 classes x keep_wrapper x 1..2 round trips x ctor args 0..2"),
        H("C16", M, "check_wrap_when_needed", t, fns + [W + "_wrap_objects_when_needed"],
          "9 exemplars (lambda, nested, __main__ function, importable function, callable instance, builtin, 3 partials with "
          "wrapped/unwrapped func, args and keywords) x closure constants 0..2 x arg 0..3 x 1..2 plain-pickle round trips"),
    ]
