"""C11 — the resource tracker's reference counts are exact."""
from ..ech import H

LEVEL = "other"
EXPLANATION = (
    "The real resource_tracker.main() loop is executed symbolically (CrossHair/z3) over a fake pipe: a prefix of "
    "REGISTER lines builds an arbitrary registry (the real code builds its own pre-state), then one symbolic "
    "request (5 commands x 4 types x 3 names incl. one with ':' and one never registered) or one malformed raw "
    "line, then EOF; recorded cleanup calls, reported errors and the end-of-life sweep are compared with a 25-line "
    "reference. Short symbolic sequences are checked directly as well.")
ASSUMPTIONS = [
    "cleanup functions (rmtree/unlink/sem_unlink) are recorders: what they do to the file system is outside",
    "counts <= 2, names from a fixed list of 3; longer histories follow by induction on the single-request step (the registry is the whole state)",
    "atomicity of <=512-byte pipe writes from several clients is a kernel property (outside)",
]
M = "lokyverif.harness.c11_tracker"
F = ["loky.backend.resource_tracker:main"]


def units(tier):
    t = 1200 if tier == "thorough" else 400
    return [
        H("C11", M, "check_step", t, F, "counts (a,file)<=2 (a:b,file)<=1 (a,folder)<=1; request cmd x name x type symbolic"),
        H("C11", M, "check_seq", t, F, "<=3 requests over {REGISTER,UNREGISTER,MAYBE_UNLINK} x 2 names x 2 types"),
        H("C11", M, "check_failing_cleanup", t, F, "one name whose destruction fails at the zeroing request (or not) + <=3 further requests on it + 0..2 other resources at end-of-life; warnings raising (-W error inherited) or not"),
        H("C11", M, "check_raw", t, F, "9 malformed/odd raw lines (empty, missing fields, undecodable, truncated at EOF, padded, CRLF) after 0..2 registrations"),
    ]
