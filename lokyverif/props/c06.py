"""C06 — forced shutdown is prompt, total and explicit."""
from ..ech import H

LEVEL = "other"
EXPLANATION = (
    "CrossHair/z3 on the real code: flag_executor_shutting_down with kill_workers (every unfinished future gets "
    "ShutdownExecutorError, resolved ones keep their outcome, every worker tree killed once, maps emptied - no task "
    "completion needed), the real pgrep-based and psutil-based tree killers over a symbolic process tree (parent "
    "vector, <=5 nodes: every node once, children before parents, vanished processes tolerated, worker joined), and "
    "get_reusable_executor passing kill_workers through to shutdown (C09 step).")
ASSUMPTIONS = [
    "process tree given by a symbolic parent vector; pgrep/psutil answer from it; kernel re-parenting of orphans and pid reuse are outside",
    "psutil.children(recursive=True) lists ancestors before descendants (documented)",
    "promptness = no dependence on task completion in the step; interleavings are not searched",
]
M = "lokyverif.harness.c06_killtree"
U = "loky.backend.utils:"


def units(tier):
    t = 900 if tier == "thorough" else 300
    return [
        H("C06", "lokyverif.harness.c02_broken", "check_flag_shutting_down", t, ["loky.process_executor:_ExecutorManagerThread.flag_executor_shutting_down", "loky.process_executor:_ExecutorManagerThread.kill_workers"], "0..3 pending, 0..3 workers"),
        H("C06", "lokyverif.harness.c02_broken", "check_flags_step", t, ["loky.process_executor:_ExecutorFlags.flag_as_shutting_down"], "all 24 combinations of previous flags and request (a forced request after a plain one is recorded)"),
        H("C06", "lokyverif.harness.c02_broken", "check_shutdown_twice", 300, ["loky.process_executor:ProcessPoolExecutor.shutdown"],
          "shutdown(wait=False) followed by shutdown(wait=*, kill_workers=*) on the same object"),
        H("C06", "lokyverif.harness.c02_broken", "check_shutdown_call", t, ["loky.process_executor:ProcessPoolExecutor.shutdown"], "wait / kill_workers / manager started: all 8 combinations"),
        H("C06", M, "check_posix_recursive_kill", t, [U + "_posix_recursive_kill", U + "_kill_process_tree_without_psutil", U + "_kill"], "trees of <=5 processes, one may have vanished; each child forked by the main or by a helper thread of its parent (pgrep and a per-thread procfs view both offered)"),
        H("C06", M, "check_psutil_kill", t, [U + "_kill_process_tree_with_psutil", U + "kill_process_tree"], "trees of <=5 processes, one may have vanished, root may be gone"),
        H("C06", "lokyverif.harness.c09_reusable", "check_factory_step", 1800 if tier == "thorough" else 700, ["loky.reusable_executor:_ReusablePoolExecutor.get_reusable_executor"], "kill_workers forwarded to shutdown(wait=True, kill_workers=...)"),
    ]
