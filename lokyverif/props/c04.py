"""C04 — task-level failures are contained to their own future."""
from ..ech import H

LEVEL = "model_checking"
ENGINE = "E-CH+E-TS"
EXPLANATION = (
    "E-TS slice: the real _SafeQueue._on_queue_feeder_error (feeder thread) races with the real add_call_item_to_queue "
    "(manager thread): bounded model checking over all interleavings, counterexamples replayed on the real methods. "
    "Bounded symbolic execution (CrossHair/z3) of the real Queue._feed, _SafeQueue._on_queue_feeder_error, "
    "_process_worker (run in-thread against a fake call/result queue), _ExceptionWithTraceback/_rebuild_exc and "
    "Future._invoke_callbacks; the failure kind of every item/task/callback and the surrounding bookkeeping state "
    "are symbolic; outcome compared with a reference. All paths within the bounds are exhausted.")
ASSUMPTIONS = [
    "pickling outcome of an item is a symbolic flag {ok, PicklingError in dumps, struct.error in send_bytes}; real pickle is not executed",
    "traceback formatting is stubbed (formatting is not the subject); the clock and memory probe of the worker are stubbed (no leak)",
    "interleaving of the feeder error path with dispatch is model-checked for 2 work ids and one failing item; with completion/shutdown only as atomic steps",
]
M = "lokyverif.harness.c04_contain"
PE = "loky.process_executor:"


def SL(name, builder, K, timeout_s=900, params=None):
    return ("lokyverif.ets.units_exec", "slice_unit", dict(prop="C04", name=name, builder=builder, K=K,
                                                            timeout_s=timeout_s, params=params))


def units(tier):
    big = tier == "thorough"
    t = 900 if big else 240
    return [
        SL("slice.x2_feeder_error_vs_dispatch", "x2_feeder_error_vs_dispatch", 26),
    ] + ([SL("slice.x2_feeder_error_vs_dispatch.n3", "x2_feeder_error_vs_dispatch", 38, params={"n": 3})] if big else []) + [
        H("C04", "lokyverif.harness.c15_reduction", "check_simple_queue_put", t, ["loky.backend.queues:SimpleQueue.put"], "result path: one message, under the write lock, lock free after a failed send"),
        H("C04", M, "check_feed", t, ["loky.backend.queues:Queue._feed"], "<=4 items then sentinel, outcome per item in {ok, dumps raises, send raises}"),
        H("C04", M, "check_feeder_error", t, [PE + "_SafeQueue._on_queue_feeder_error"], "ids 0..2, arbitrary pending/running subsets (failed id running), both error kinds"),
        H("C04", M, "check_worker_contains_3" if big else "check_worker_contains_2", 1500 if big else 300,
          [PE + "_process_worker", PE + "_sendback_result", PE + "_ExceptionWithTraceback.__init__"],
          "<=3 / <=2 call items, outcome per item in {return, raise Exception, SystemExit, KeyboardInterrupt, result unpicklable}, values symbolic ints"),
        H("C04", M, "check_process_chunk_raises", t, [PE + "_process_chunk"], "chunks of 1..3 items each returning or raising Exception/StopIteration/KeyboardInterrupt/SystemExit"),
        H("C04", M, "check_rebuild_exc", t, [PE + "_ExceptionWithTraceback.__reduce__", PE + "_rebuild_exc"], "4 exception classes incl. SystemExit/KeyboardInterrupt, args symbolic ints"),
        H("C04", M, "check_exc_payload_sendable", t, [PE + "_ExceptionWithTraceback.__init__", PE + "_ExceptionWithTraceback.__reduce__", PE + "_rebuild_exc"],
          "2 picklable exception classes x {no chain, explicit cause, implicit context} x {picklable, unpicklable origin} x arg 0..3: the payload the worker puts on the result queue survives real pickle and shows the chain as text"),
        H("C04", M, "check_callbacks", t, ["loky._base:Future._invoke_callbacks"], "<=4 callbacks each {ok, raises Exception, SystemExit, KeyboardInterrupt}"),
    ]
