"""C02 — abrupt worker death is detected and fails the pool loudly."""
from ..ech import H

LEVEL = "model_checking"
ENGINE = "E-CH+E-TS"
EXPLANATION = (
    "E-TS slices: the real submit -> _ensure_executor_running -> _adjust_process_count against the real "
    "wait_result_broken_or_wakeup loop and the death of the freshly spawned worker at any instant (is the death ever "
    "unwatched?); the real terminate_broken -> kill_workers -> join_executor_internals compiled from the AST, from any "
    "consistent bookkeeping state incl. user-cancelled futures (bounded model checking, replayed on the real code). "
    "Step contracts on the real manager-thread methods (CrossHair/z3): the full decision table of "
    "wait_result_broken_or_wakeup (symbolic readiness subset of {result pipe, wakeup pipe, sentinels}, symbolic kind "
    "of received item, symbolic exit code), terminate_broken / kill_workers / join_executor_internals from an "
    "arbitrary pending/processes state (flag first, every future failed with the same error, every worker killed "
    "once and reaped, internals closed), exit-code naming for all codes -64..255, and submit() on a broken pool "
    "raising that same error (C03 submit step).")
ASSUMPTIONS = [
    "interleavings are searched in the slices only (terminate_broken vs submit; submit re-spawning a worker vs its death vs the manager's wait loop); the step contracts claim the manager's reaction once wait() returns, from any bookkeeping state",
    "that SIGKILL ends a process and makes its sentinel readable is a kernel property",
    "kill_process_tree is a recorder here; its tree walk is checked in C06",
    "known limitation of the real code (finding F5, recorded): a worker dying half-way through a large result leaves recv() blocked; not expressible in this step contract",
]
M = "lokyverif.harness.c02_broken"
PE = "loky.process_executor:_ExecutorManagerThread."


def SL(name, builder, K, timeout_s=1500, params=None):
    return ("lokyverif.ets.units_exec", "slice_unit", dict(prop="C02", name=name, builder=builder, K=K,
                                                            timeout_s=timeout_s, params=params))


def units(tier):
    t = 1200 if tier == "thorough" else 400
    u = [
        SL("slice.terminate_broken", "x6_terminate_broken", 44),
        SL("slice.terminate_broken_vs_submit", "x6_terminate_broken", 70, params={"with_user": True}),
        SL("slice.crash_after_respawn", "x10_crash_after_respawn", 60, params={"live0": 0}),
        SL("slice.crash_holding_mgmt_lock", "x11_crash_holding_mgmt_lock", 50),
        SL("slice.crash_after_respawn_1of2", "x10_crash_after_respawn", 60, params={"live0": 1}),
        H("C02", "lokyverif.harness.c02_broken", "check_run_loop", t, ["loky.process_executor:_ExecutorManagerThread.run"],
          "1..3 turns of the manager loop, each a wake-up / a result / a broken pool; shutdown flag raised at turn 0..3; work left or not after each turn"),
        H("C02", M, "check_wait_table", t, [PE + "wait_result_broken_or_wakeup", "loky.backend.utils:get_exitcodes_terminated_worker", "loky.backend.utils:_format_exitcodes"],
          "1..2 workers, readiness subset symbolic, item kind in {result, pid, remote traceback, garbled}, exit code -15..3"),
        H("C02", M, "check_exitcode_names", t, ["loky.backend.utils:_format_exitcodes", "loky.backend.utils:_get_exitcode_name"], "exit codes -64..255"),
        H("C02", M, "check_terminate_broken", t, [PE + "terminate_broken", PE + "kill_workers", PE + "join_executor_internals", PE + "shutdown_workers"],
          "0..3 pending futures, 0..3 workers, kill raising ProcessLookupError or not"),
        H("C02", "lokyverif.harness.c06_killtree", "check_psutil_kill", t, ["loky.backend.utils:_kill_process_tree_with_psutil", "loky.backend.utils:kill_process_tree"],
          "'all remaining workers are killed and reaped': trees of <=5 processes, one descendant may vanish between listing and killing, root may be gone"),
        H("C02", "lokyverif.harness.c06_killtree", "check_posix_recursive_kill", t, ["loky.backend.utils:_kill_process_tree_without_psutil"],
          "same without psutil"),
        H("C02", "lokyverif.harness.c03_steps", "check_submit_step", t, ["loky.process_executor:ProcessPoolExecutor.submit"], "submit on a broken pool raises the stored error object"),
    ]
    if tier == "thorough":
        u += [SL("slice.terminate_broken.n3", "x6_terminate_broken", 56, timeout_s=3000, params={"n": 3})]
    return u
