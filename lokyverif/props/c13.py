"""C13 — no named semaphore outlives its process tree."""
from ..ech import H

LEVEL = "model_checking"
ENGINE = "E-CH+E-TS"
EXPLANATION = (
    "E-TS slice x9: two threads in the real ResourceTracker.ensure_running over a kernel model (a healthy tracker whose "
    "pipe is closed sweeps the semaphores of live objects), all interleavings, replayed. "
    "Composition executed symbolically (CrossHair/z3): the real SemLock.__init__ / _cleanup / __getstate__ / "
    "__setstate__ run against a fake kernel semaphore namespace (C _SemLock raising FileExistsError a symbolic "
    "number of times, sem_unlink raising FileNotFoundError when absent), the messages the client side sent are fed "
    "to the real tracker main() followed by EOF. Which finalizers ran, which names user code unlinked early and "
    "which objects were unpickled as copies are symbolic.")
ASSUMPTIONS = [
    "'every way of ending' is abstracted to which finalizers ran before the tree ended",
    "the tracker sees EOF after the tree ends (kernel, see C12)",
    "/dev/shm itself is modelled by a set",
]
M = "lokyverif.harness.c13_semlock"


def units(tier):
    big = tier == "thorough"
    return [("lokyverif.ets.units_exec", "slice_unit", dict(prop="C13", name="slice.tracker_race", builder="x9_tracker_race", K=44, timeout_s=1200)),
            H("C13", "lokyverif.harness.c11_tracker", "check_failing_cleanup", 400, ["loky.backend.resource_tracker:main"],
              "the end-of-life sweep destroys everything still counted also when warnings are errors in the tracker process (-W error inherited from the parent)"),
            H("C13", M, "check_kill_window_f7", 200, ["loky.backend.synchronize:SemLock.__init__", "loky.backend.resource_tracker:main"],
              "owner SIGKILLed after exactly 1 visible effect (sem_open done, REGISTER not yet sent): known finding F7"),
            H("C13", M, "check_kill_points", 400, ["loky.backend.synchronize:SemLock.__init__", "loky.backend.synchronize:SemLock._cleanup",
                                                   "loky.backend.resource_tracker:main"],
              "owner SIGKILLed after 2..4 of the externally visible effects (create, REGISTER, unlink, UNREGISTER) or never; early user unlink or not"),
            H("C13", M, "check_copy_after_release", 400, ["loky.backend.synchronize:SemLock.__setstate__", "loky.backend.synchronize:SemLock.__getstate__",
                                                         "loky.backend.synchronize:SemLock._cleanup", "loky.backend.resource_tracker:main"],
              "1..2 unpickled copies of a Lock / RLock, rebuilt before or after the creator released the object"),
            H("C13", M, "check_lifecycle_t" if big else "check_lifecycle_q", 1500 if big else 400,
              ["loky.backend.synchronize:SemLock.__init__", "loky.backend.synchronize:SemLock._cleanup",
               "loky.backend.synchronize:SemLock.__setstate__", "loky.backend.synchronize:SemLock._make_name",
               "loky.backend.resource_tracker:main"],
              "1..2 semaphores (Lock, RLock); name collisions 0..2 / 0..1 each; finalized / unlinked early / copied symbolic per semaphore")]
