"""C15 — serialisation customisation is scoped and faithful."""
from ..ech import H

LEVEL = "other"
EXPLANATION = (
    "Bounded symbolic execution (CrossHair/z3) of the real reducers and of CustomizablePickler: "
    "partial/method/descriptor reducers with symbolic payloads, round trips through the real dumps+loads for both "
    "back-ends, symbolic sequences of picklers built with different reducer sets (process-wide tables and earlier "
    "picklers unchanged), the real ProcessPoolExecutor.__init__ routing of job/result reducers, and symbolic "
    "sequences of set_loky_pickler calls followed by a _CallItem call.")
ASSUMPTIONS = [
    "pickle/cloudpickle internals are C code: selectors (which back-end, which reducer set, which sequence) are symbolic, object graphs are a fixed list of exemplars",
    "identity of partial.func is not observable under CrossHair (it proxies callables handed to functools.partial); equal behaviour is checked instead",
]
M = "lokyverif.harness.c15_reduction"
R = "loky.backend.reduction:"


def units(tier):
    big = tier == "thorough"
    t = 900 if big else 300
    return [
        H("C15", M, "check_partial_fidelity", t, [R + "_reduce_partial", R + "_rebuild_partial"], "args: tuple of <=3 unbounded ints, keywords: any subset of {a, key} with unbounded int values (incl. empty)"),
        H("C15", M, "check_partial_roundtrip_variants", t, [R + "_reduce_partial", R + "_rebuild_partial", R + "dumps"],
          "partial with/without keywords x with/without instance attributes x 2 back-ends"),
        H("C15", M, "check_method_fidelity", t, [R + "_reduce_method", R + "_reduce_method_descriptor"], "bound method / classmethod / list.append / int.__add__"),
        H("C15", M, "check_roundtrip_backends", t, [R + "dumps", R + "set_loky_pickler"], "2 back-ends x 5 exemplar kinds"),
        H("C15", M, "check_scoping_3" if big else "check_scoping_2", 2400 if big else 600, [R + "set_loky_pickler", R + "dumps"],
          "2 back-ends x sequences of <=3 / <=2 picklers over 4 reducer sets"),
        H("C15", M, "check_reducers_history_3" if big else "check_reducers_history_2", 1500 if big else 500, [R + "set_loky_pickler", R + "dumps", R + "register"],
          "2 back-ends x histories of 2 (thorough: 2..3) requests x reducer function A/B x {earlier mapping dropped first (address reuse), same dict object with the function replaced, a new equal-keyed mapping}"),
        H("C15", "lokyverif.harness.c09_reusable", "check_factory_reducers", 300, ["loky.reusable_executor:_ReusablePoolExecutor.get_reusable_executor"],
          "'not other executors': a request whose reducers differ (none / job only / job + empty result reducers / both) never gets the executor built for other reducers under reuse='auto'"),
        H("C15", M, "check_simple_queue_put", t, ["loky.backend.queues:SimpleQueue.put"], "queue reducers given or not, write lock or not, send failing or not"),
        H("C15", M, "check_result_reducers_default", t, ["loky.process_executor:ProcessPoolExecutor.__init__", "loky.process_executor:ProcessPoolExecutor._setup_queues"], "job/result reducers given or None (4 combinations)"),
        H("C15", M, "check_pickler_selection", 900 if big else 400, [R + "set_loky_pickler", R + "get_loky_pickler_name", "loky.process_executor:_CallItem.__init__", "loky.process_executor:_CallItem.__call__"],
          "sequences of <=3 selections over {None,'','cloudpickle','pickle'}, item built at any step, any selection in between"),
    ]
