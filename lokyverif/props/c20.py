"""C20 — executor lifecycles leak no parent-side resources (executor-owned resources)."""
from ..ech import H

LEVEL = "model_checking"
ENGINE = "E-CH+E-TS"
EXPLANATION = (
    "E-TS slice x6: after the real terminate_broken -> kill_workers -> join_executor_internals every queue and the wakeup "
    "pipe are closed, every started worker is dead and joined and both locks are free, from any consistent bookkeeping state. "
    "Balance contracts on the real code (CrossHair/z3) over fake kernels that track open descriptors: "
    "join_executor_internals / terminate_broken close call queue, result queue and wakeup pipe and join every "
    "registered worker; _ThreadWakeup.close is idempotent and closes both ends; Popen._launch leaves exactly the "
    "sentinel open (with a closing finalizer); fork_exec closes both error-pipe ends on success and failure; "
    "ensure_running never leaks a pipe end across tracker restarts.")
ASSUMPTIONS = [
    "descriptors released by garbage collection (util.Finalize(os.close, parent_r), references dropped by shutdown()) are outside",
    "/proc/self/fd, zombies of grandchildren and the tracker processes themselves are outside",
    "histories: each terminal step returns every counter to its initial value, so k repetitions equal one",
]
M = "lokyverif.harness.c02_broken"
PE = "loky.process_executor:_ExecutorManagerThread."


def SL(name, builder, K, timeout_s=1500, params=None):
    return ("lokyverif.ets.units_exec", "slice_unit", dict(prop="C20", name=name, builder=builder, K=K,
                                                            timeout_s=timeout_s, params=params))


def units(tier):
    t = 1500 if tier == "thorough" else 700
    u = [
        SL("slice.terminate_broken", "x6_terminate_broken", 44),
        H("C20", M, "check_join_internals", t, [PE + "join_executor_internals"], "0..3 workers"),
        H("C20", M, "check_shutdown_workers_small_queue", t, [PE + "shutdown_workers", PE + "get_n_children_alive"],
          "1..3 workers idle or already leaving, call queue with 1..2 free slots: the manager thread gets through shutdown_workers "
          "(if it dies there, the queues, the wakeup pipe and the feeder thread are never released)"),
        H("C20", M, "check_shutdown_workers", t, [PE + "shutdown_workers", PE + "get_n_children_alive"], "0..3 workers each alive or not, Full raised 0..3 times"),
        H("C20", M, "check_unused_executor_released", t, ["loky.process_executor:ProcessPoolExecutor.__init__", "loky.process_executor:_ThreadWakeup.__init__", "loky.process_executor:ProcessPoolExecutor.shutdown"],
          "1..3 executors created and released without a task: shutdown() / with-block / plain drop"),
        H("C20", M, "check_exit_registry", t, ["loky.process_executor:ProcessPoolExecutor._start_executor_manager_thread", "loky.process_executor:_python_exit", "loky.process_executor:ProcessPoolExecutor.shutdown"],
          "1..3 executors released by shutdown(wait=False) / plain drop / shutdown(wait=True), with or without the interpreter-exit hook running first"),
        H("C20", M, "check_terminate_broken", t, [PE + "terminate_broken"], "0..3 pending, 0..3 workers"),
        H("C20", M, "check_wakeup_close_idempotent", t, ["loky.process_executor:_ThreadWakeup.close"], "1..3 closes"),
        H("C20", "lokyverif.harness.c18_spawn", "check_popen_fork_failure", t, ["loky.backend.popen_loky_posix:Popen.__init__", "loky.backend.popen_loky_posix:Popen._launch"],
          "fork/exec failing 0..2 times (EAGAIN / ENOMEM) before it succeeds; 0..1 extra inherited handle"),
        H("C20", "lokyverif.harness.c18_spawn", "check_launch", t, ["loky.backend.popen_loky_posix:Popen._launch"], "descriptor table after launch = {sentinel}"),
        H("C20", "lokyverif.harness.c18_spawn", "check_fork_exec", t, ["loky.backend.fork_exec:fork_exec"], "error pipe closed on both outcomes"),
        H("C20", "lokyverif.harness.c06_killtree", "check_psutil_kill", t, ["loky.backend.utils:_kill_process_tree_with_psutil"],
          "the killed worker is reaped by process.join() (never by psutil), trees of <=5 processes"),
        H("C20", "lokyverif.harness.c06_killtree", "check_posix_recursive_kill", t, ["loky.backend.utils:_kill_process_tree_without_psutil"],
          "same through the pgrep fallback; children forked by main or helper threads (per-thread procfs view offered)"),
        H("C20", "lokyverif.harness.c12_tracker_ctl", "check_ensure_running", t, ["loky.backend.resource_tracker:ResourceTracker.ensure_running"], "<=3 restarts, no descriptor left behind"),
    ]
    if tier == "thorough":
        u += [SL("slice.terminate_broken.n3", "x6_terminate_broken", 56, timeout_s=3000, params={"n": 3})]
    return u
