"""C19 — nesting depth is bounded exactly at LOKY_MAX_DEPTH."""
from ..ech import H

ENGINE = "E-SYM+E-CH"
LEVEL = "other"
EXPLANATION = (
    "E-SYM: _check_max_depth translated from the AST and decided path-complete over unbounded integers "
    "(raises iff (fork and d>=1) or (MAX>=1 and d>=MAX)). E-CH (CrossHair/z3) on the real code: the same predicate "
    "for bounded ints, constructor calls _check_max_depth before creating anything, MAX_DEPTH parsing expression, and "
    "the composition _adjust_process_count -> _process_worker gives the worker depth d+1 on the only spawn site.")
ASSUMPTIONS = [
    "a real 10-deep process tree is outside; depth is propagated through the args tuple of the only spawn site",
    "E-CH integer ranges: d 0..40 / MAX_DEPTH -5..40 (E-SYM covers all integers)",
]
M = "lokyverif.harness.c19_depth"
P = "lokyverif.harness.c08_pool_size"


def units(tier):
    t = 900 if tier == "thorough" else 300
    return [
        ("lokyverif.esym_units", "c19_check_max_depth", {}),
        H("C19", M, "check_max_depth", t, ["loky.process_executor:_check_max_depth"], "d 0..40, MAX_DEPTH -5..40, fork or not"),
        H("C19", M, "check_ctor_checks_depth_first", t, ["loky.process_executor:ProcessPoolExecutor.__init__"], "d 0..12, MAX_DEPTH -1..12"),
        H("C19", M, "check_env_parse", t, [], "LOKY_MAX_DEPTH absent or -3..30"),
        H("C19", P, "check_worker_depth_and_init", t, ["loky.process_executor:_process_worker", "loky.process_executor:ProcessPoolExecutor._adjust_process_count"], "depth 0..50"),
        H("C19", P, "check_adjust", t, ["loky.process_executor:ProcessPoolExecutor._adjust_process_count"], "depth 0..20"),
        H("C19", P, "check_only_spawn_site", t, [], "AST scan"),
    ]
