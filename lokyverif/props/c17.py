"""C17 — cpu_count is the minimum of all applicable limits and at least 1."""
from ..ech import H

LEVEL = "other"
ENGINE = "E-SYM+E-CH"
TECHNIQUE = ("path-complete symbolic execution of the AST of cpu_count and its helpers into z3 (unbounded integers); "
             "one unsat query per feasible path and clause; float ceil step as a separate QF_BVFP lemma; counterexamples replayed on the real function")
EXPLANATION = (
    "E-SYM: cpu_count, _cpu_count_user, _cpu_count_cgroup, _cpu_count_affinity and _count_physical_cores are "
    "re-translated from /repo's current AST and executed symbolically over every feasible path (about 3000) with "
    "mathematical integers for the OS count, affinity sizes, cgroup quota/period, LOKY_MAX_CPU_COUNT and the probe "
    "value, Booleans for every environment fact (os.cpu_count() is None, sched_getaffinity present / not "
    "implemented, psutil importable / has cpu_affinity, 5 cgroup file layouts, quota 'max', override set, probe "
    "raises) and the 3 cache states; on each path the returned term is compared with the statement's formula "
    "(unsat = holds for all integers). only_physical_cores=True additionally checks the three-way case split, the "
    "one-warning rule and a second consecutive call (same value, no warning, no new probe). The translator is "
    "validated on every run against the real function on 160 concrete configurations. math.ceil(q/p) is encoded as "
    "the exact integer ceiling under lemma L_fp, itself discharged as a QF_BVFP query for small operands. A query the "
    "solver cannot decide over the full domain (e.g. a product of two symbolic integers introduced by a change) is "
    "retried with the cgroup period pinned to 100000 / 1000000 / 1000 / 1: a model found that way is a genuine "
    "counterexample (replayed), anything else leaves the unit inconclusive.")
ASSUMPTIONS = [
    "sys.platform == 'linux' (the Windows cap is outside)",
    "cgroup file contents are 'max' or decimal integers; in the E-SYM unit what lscpu prints is abstracted to the probe's return value; the Linux probe itself is a separate E-CH contract (distinct core ids of a symbolic lscpu / cpuinfo output)",
    "lemma L_fp (float64 q/p then ceil == exact ceiling) is a solver result only for q,p < 2^8 (quick) / 2^12 (thorough); above that it is an assumption",
]


def units(tier):
    from ..ech import H
    u = [H("C17", "lokyverif.harness.c17_probe", "check_linux_probe", 300, ["loky.backend.context:_count_physical_cores_linux"],
           "lscpu output of <=3 core-id lines (ids 0..2) with <=2 comment lines anywhere"),
         H("C17", "lokyverif.harness.c17_probe", "check_linux_probe_fallback", 300, ["loky.backend.context:_count_physical_cores_linux"],
           "lscpu missing -> /proc/cpuinfo with <=4 processors (core ids 0..2)"),
         ("lokyverif.esym_units", "c17_cpu_count", {}),
         ("lokyverif.esym_units", "c17_lemma_fp", {"bits": 8, "timeout_s": 400, "solver": "z3"})]
    if tier == "thorough":
        u.append(("lokyverif.esym_units", "c17_lemma_fp", {"bits": 12, "timeout_s": 1500, "solver": "cvc5"}))
    return u
