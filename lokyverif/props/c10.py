"""C10 — resizing preserves work and survivors, and terminates."""
from ..ech import H

LEVEL = "other"
EXPLANATION = (
    "CrossHair/z3 on the real _resize against fake internals whose time.sleep stub lets the environment make "
    "progress (a worker holding a sentinel leaves; the manager reaps dead workers it watches) and raises Livelock when "
    "the loop keeps polling although nothing can change: (a) exactly max(0, alive-new) sentinels, posted and the new "
    "size published under the management lock, after waiting for jobs; returns with `new` live workers of which "
    "min(old,new) are the previous ones; early-return branches; (b) termination for every combination of dead "
    "workers before/after the spawn and a pool that breaks meanwhile.")
ASSUMPTIONS = [
    "the manager thread is abstracted by the sleep stub: it removes a dead worker from the table only if it watches it (spawned before its last wakeup) - this is what exposed finding F3",
    "'every task submitted before still completes': _wait_job_completion is called first under the submit/resize lock (checked); the completion itself is the manager's job (C03 step contracts)",
]
M = "lokyverif.harness.c10_resize"


def units(tier):
    t = 900 if tier == "thorough" else 300
    f = ["loky.reusable_executor:_ReusablePoolExecutor._resize"]
    return [
        H("C10", "lokyverif.harness.c10_resize", "check_wait_job_completion", t, ["loky.reusable_executor:_ReusablePoolExecutor._wait_job_completion"],
          "0..4 pending work items completing 1..2 per poll"),
        H("C10", "lokyverif.harness.c10_resize", "check_resize_aborted", 300, ["loky.reusable_executor:_ReusablePoolExecutor._resize"],
          "old != new in 1..3, 0..old live workers; the wait for running jobs is aborted by an exception: nothing of the resize may have happened"),
        H("C10", "lokyverif.harness.c08_pool_size", "check_adjust_start_failure", 300, ["loky.process_executor:ProcessPoolExecutor._adjust_process_count"],
          "0..2 registered, max_workers 1..4, the k-th Process.start() of the top-up fails (k 0..3)"),
        H("C10", M, "check_resize", t, f, "old/new 1..3, 0..old live workers, manager started or not"),
        H("C10", M, "check_resize_terminates", t, f, "old != new in 1..3, 0..old dead workers in the table, new workers die or not, pool breaks meanwhile or not"),
    ]
