"""C07 — idle-timeout exits are invisible: never 'broken', never a lost task."""
from ..ech import H

LEVEL = "model_checking"
ENGINE = "E-TS+E-CH"
TECHNIQUE = ("bounded model checking (z3, bit-vector state, symbolic schedule) of transition systems compiled from the "
             "current AST of process_result_item / submit / _ensure_executor_running / _adjust_process_count / shutdown, "
             "from symbolic initial states; traces replayed on the real methods; worker side by CrossHair")
EXPLANATION = (
    "E-TS slices: the manager thread handles a worker's exit announcement (real process_result_item, pid branch) "
    "while (a) a user thread runs the real submit -> _ensure_executor_running -> _adjust_process_count, (b) the user "
    "releases the executor with the real shutdown(wait=False), (c) the executor object has been collected; the "
    "leaving worker waits for its exit lock with a free time-out transition. For every interleaving within K fused "
    "steps (K checked to be a completeness threshold) z3 decides: the manager never dies, the pool is never flagged "
    "broken, no worker is spawned without the management lock or beyond max_workers, and at quiescence pending work "
    "implies a registered worker (no lost task). E-CH: the real _process_worker against symbolic sequences of tasks "
    "and queue.Empty time-outs with the management lock free or held: it leaves only from the Empty branch with the "
    "lock free, announces its pid exactly once and last, never while a fetched task is unanswered; the pid message "
    "handling step contract (C08 harness).")
ASSUMPTIONS = [
    "max_workers=1 pool whose only worker is idle and past its exit announcement, 0..1 tasks dispatched earlier; larger pools / several simultaneous time-outs only through the step contracts",
    "a time-out exit and a memory-leak exit take the same announcement path; _resize racing with a time-out is covered in C10 only",
    "process start/join/liveness are primitives (DESIGN.md section 3); starting the manager thread is outside (it exists in every slice)",
    "known finding F2 (executor collected + last worker leaves with work pending) is reported as KNOWN-FINDING, see known_findings.json",
]
P = "lokyverif.harness.c08_pool_size"
PE = "loky.process_executor:"


def SL(name, builder, K, timeout_s=1500, params=None):
    return ("lokyverif.ets.units_exec", "slice_unit", dict(prop="C07", name=name, builder=builder, K=K,
                                                            timeout_s=timeout_s, params=params))


def units(tier):
    t = 900 if tier == "thorough" else 300
    return [
        SL("slice.worker_exit_vs_submit", "x3_worker_exit_vs_submit", 50),
        SL("slice.worker_exit_vs_shutdown_nowait", "x3_worker_exit_vs_submit", 44, params={"with_user": False, "shutdown_thread": True}),
        SL("slice.worker_exit_executor_collected", "x3_worker_exit_vs_submit", 30, params={"with_user": False, "collected": True}),
        H("C07", P, "check_worker_timeout_path", t, [PE + "_process_worker"], "<=3 events each task or idle time-out, management lock free/held at each time-out"),
        H("C07", P, "check_pid_message", t, [PE + "_ExecutorManagerThread.process_result_item"], "1..3 workers, max_workers 1..3, pending/running counts 0..3"),
        H("C07", P, "check_ensure_running", t, [PE + "ProcessPoolExecutor._ensure_executor_running"], "submit tops the pool up"),
    ]
