"""C01 — every submitted future resolves and no API call hangs (deadlock freedom), at the level of protocol slices."""
from ..ech import H

LEVEL = "model_checking"
ENGINE = "E-TS+E-CH"
TECHNIQUE = ("bounded model checking (z3, bit-vector state, symbolic schedule, blocking operations as guards) of "
             "transition systems compiled from the current AST of the manager-thread / submit / shutdown / feeder-error "
             "code, from symbolic initial states; stuck-state and thread-death queries; traces replayed on the real methods")
EXPLANATION = (
    "C01 is decided for the hand-shakes between threads, one slice at a time (whole-lifecycle runs need ~150 steps and "
    "are outside what the solver finishes). Each slice runs the *real* functions, compiled from /repo's current AST, "
    "in 2-3 threads from a symbolic initial state constrained by the stated bookkeeping invariant, and asks z3 for (i) "
    "a state with no enabled transition in which some thread has not finished (deadlock/livelock: blocking calls are "
    "guards), (ii) a management thread ending on an uncaught exception. Slices: submit vs the manager's wait "
    "(wakeup pipe bounded, send blocks under the shutdown lock); worker exit vs submit / vs shutdown(wait=False) / "
    "with the executor collected; shutdown(wait=False) vs an idle manager; terminate_broken from any bookkeeping "
    "state incl. user-cancelled futures; dispatch vs cancel; feeder error path vs dispatch. K is checked to be a "
    "completeness threshold of each slice. E-CH: _resize terminates (C10 harness), the manager's wait decision "
    "table (C02 harness).")
ASSUMPTIONS = [
    "bounded liveness at slice level: no stuck state and no thread death within the slice; fair infinite runs and whole-program lifecycles are outside the claim",
    "crash points of workers inside stdlib Queue.get / mid-message (findings F4, F5 of known_findings.json) are outside the claimed bounds",
    "wakeup pipe capacity abstracted to 1-2 messages; call queue <= 3 slots; <= 2 work ids; 1-2 worker slots",
    "task functions terminate; pickling outcomes are symbolic flags",
]


def SL(name, builder, K, timeout_s=1500, params=None):
    return ("lokyverif.ets.units_exec", "slice_unit", dict(prop="C01", name=name, builder=builder, K=K,
                                                            timeout_s=timeout_s, params=params))


def units(tier):
    t = 900 if tier == "thorough" else 300
    u = [
        SL("slice.wakeup_vs_submit", "x4_wakeup_vs_submit", 40),
        SL("slice.shutdown_nowait_vs_wait", "x5_shutdown_nowait_vs_wait", 30),
        SL("slice.worker_exit_vs_submit", "x3_worker_exit_vs_submit", 50),
        SL("slice.worker_exit_vs_shutdown_nowait", "x3_worker_exit_vs_submit", 44, params={"with_user": False, "shutdown_thread": True}),
        SL("slice.worker_exit_executor_collected", "x3_worker_exit_vs_submit", 30, params={"with_user": False, "collected": True}),
        SL("slice.terminate_broken", "x6_terminate_broken", 44),
        SL("slice.terminate_broken_vs_submit", "x6_terminate_broken", 70, params={"with_user": True}),
        SL("slice.crash_after_respawn", "x10_crash_after_respawn", 60, params={"live0": 0}),
        SL("slice.crash_holding_mgmt_lock", "x11_crash_holding_mgmt_lock", 50),
        SL("slice.dispatch_vs_cancel", "x1_dispatch_vs_cancel", 16),
        SL("slice.feeder_error_vs_dispatch", "x2_feeder_error_vs_dispatch", 26),
        H("C01", "lokyverif.harness.c02_broken", "check_run_loop", t, ["loky.process_executor:_ExecutorManagerThread.run"],
          "1..3 turns of the manager loop, each a wake-up / a result / a broken pool; shutdown flag raised at turn 0..3; work left or not after each turn"),
        H("C01", "lokyverif.harness.c04_contain", "check_feed", t, ["loky.backend.queues:Queue._feed"],
          "'fail to pickle in either direction': every item that cannot be pickled or sent reaches the error handler as the item itself (so that its future is failed), later items are still sent; <=4 items, 5 outcomes each"),
        H("C01", "lokyverif.harness.c04_contain", "check_feeder_error", t, ["loky.process_executor:_SafeQueue._on_queue_feeder_error"],
          "the error handler fails exactly the item's future and wakes the manager; 3 ids"),
        H("C01", "lokyverif.harness.c10_resize", "check_resize_terminates", t, ["loky.reusable_executor:_ReusablePoolExecutor._resize"], "old != new in 1..3, dead workers before/after the spawn, pool breaks meanwhile"),
        H("C01", "lokyverif.harness.c02_broken", "check_wait_table", 1200 if tier == "thorough" else 400,
          ["loky.process_executor:_ExecutorManagerThread.wait_result_broken_or_wakeup"], "readiness subset symbolic"),
    ]
    if tier == "thorough":
        u += [SL("slice.terminate_broken.n3", "x6_terminate_broken", 56, timeout_s=3000, params={"n": 3})]
        u += [SL("slice.dispatch_vs_cancel.n3", "x1_dispatch_vs_cancel", 24, params={"n": 3}),
              SL("slice.dispatch_vs_cancel.n4", "x1_dispatch_vs_cancel", 32, params={"n": 4}),
              SL("slice.feeder_error_vs_dispatch.n3", "x2_feeder_error_vs_dispatch", 38, params={"n": 3})]
    return u
