"""C12 — one tracker per tree, self-healing (control logic only)."""
from ..ech import H

LEVEL = "model_checking"
ENGINE = "E-CH+E-TS"
EXPLANATION = (
    "E-TS slice x9: two threads run the real ensure_running (compiled from the AST) after the tracker may have been "
    "killed, against a kernel model (pipes, tracker processes, waitpid, spawn): for every interleaving the pipe of a live "
    "tracker is never closed, exactly one tracker is started per death, no descriptor is closed twice or left open, "
    "nobody blocks; traces replayed on the real method. "
    "Bounded symbolic execution (CrossHair/z3) of the real ResourceTracker.ensure_running over symbolic sequences "
    "of <=3 calls (tracker alive or dead, spawn succeeds or raises, reaping fails or not) against a fake kernel "
    "(descriptor table, signal mask), of the real spawn.get_preparation_data -> spawn.prepare round trip with "
    "symbolic tracker fd/pid, and of the real tracker main() (signals ignored before the first read, sweep only "
    "after EOF).")
ASSUMPTIONS = [
    "kernel semantics are outside: EOF delivered only when the last writer is gone (incl. SIGKILL), real signal delivery, waitpid on non-children",
    "_check_alive's answer is a symbolic Boolean",
    "that the tracker fd stays open across fork_exec is checked in C18 (keep-list)",
]
M = "lokyverif.harness.c12_tracker_ctl"


def units(tier):
    t = 900 if tier == "thorough" else 300
    return [
        ("lokyverif.ets.units_exec", "slice_unit", dict(prop="C12", name="slice.tracker_race", builder="x9_tracker_race", K=44, timeout_s=1200)),
        H("C12", M, "check_ensure_running", t, ["loky.backend.resource_tracker:ResourceTracker.ensure_running"],
          "<=3 consecutive calls; alive/spawn_ok/reap_fails symbolic per call"),
        H("C12", M, "check_identity_inherited", t, ["loky.backend.spawn:get_preparation_data", "loky.backend.spawn:prepare"],
          "tracker fd/pid and mp tracker fd/pid unbounded symbolic ints, init_main flag symbolic"),
        H("C12", "lokyverif.harness.c18_spawn", "check_launch", t, ["loky.backend.popen_loky_posix:Popen._launch"],
          "the child is handed the pipe of the tracker that is current when it is spawned: tracker never started / running / dead with a stale fd recorded"),
        H("C12", "lokyverif.harness.c11_tracker", "check_signals_before_read", t, ["loky.backend.resource_tracker:main"],
          "0..2 requests before EOF"),
    ]
