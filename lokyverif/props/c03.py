"""C03 — right result to the right future, at-most-once execution, map == map."""
from ..ech import H

LEVEL = "other"
EXPLANATION = (
    "Bounded symbolic execution (CrossHair/z3) of the real loky functions against a reference: "
    "map composition for all list contents with lengths/chunk sizes in the stated bounds; inductive step "
    "contracts on the real submit / add_call_item_to_queue / process_result_item bookkeeping from arbitrary "
    "consistent pre-states. 'Confirmed over all paths' is required; each harness has a refuted vacuity twin.")
ASSUMPTIONS = [
    "what fn computes is outside the claim (fn is an injective tuple builder)",
    "real pickling of arguments/results is outside the claim",
    "interleavings of submit/cancel/dispatch are covered only through the step contracts (each step is atomic "
    "under the lock the real code holds); the schedule quantifier is decided in C01/C07 models where claimed",
]
M = "lokyverif.harness.c03_map"
PE = "loky.process_executor:"


def units(tier):
    t = 90 if tier == "quick" else 300
    u = [
        H("C03", M, "check_map_two_iterables", t,
          [PE + "_get_chunks", PE + "_process_chunk", PE + "_chain_from_iterable_of_lists"],
          "len(xs),len(ys)<=4, 1<=c<=5, element values unbounded ints"),
        H("C03", M, "check_map_one_iterable", t,
          [PE + "_get_chunks", PE + "_process_chunk", PE + "_chain_from_iterable_of_lists"],
          "len(xs)<=6, 1<=c<=7"),
    ]
    return u
