"""C03 — right result to the right future, at-most-once execution, map == map."""
from ..ech import H

LEVEL = "model_checking"
ENGINE = "E-CH+E-TS"
EXPLANATION = (
    "E-TS slice: the real add_call_item_to_queue compiled from the AST runs against a user thread calling cancel() "
    "(bounded model checking over all interleavings, counterexamples replayed on the real method). "
    "Bounded symbolic execution (CrossHair/z3) of the real loky functions against a reference: "
    "map composition for all list contents with lengths/chunk sizes in the stated bounds; inductive step "
    "contracts on the real submit / add_call_item_to_queue / process_result_item bookkeeping from arbitrary "
    "consistent pre-states. 'Confirmed over all paths' is required; each harness has a refuted vacuity twin.")
ASSUMPTIONS = [
    "what fn computes is outside the claim (fn is an injective tuple builder)",
    "real pickling of arguments/results is outside the claim",
    "interleavings: one protocol slice is model-checked (manager dispatch racing with Future.cancel, all schedules, "
    "2 work ids); other interleavings only through the step contracts (each step atomic under the lock the real code holds)",
]
M = "lokyverif.harness.c03_map"
PE = "loky.process_executor:"


def SL(name, builder, K, timeout_s=900, params=None):
    return ("lokyverif.ets.units_exec", "slice_unit", dict(prop="C03", name=name, builder=builder, K=K,
                                                            timeout_s=timeout_s, params=params))


def units(tier):
    t = 90 if tier == "quick" else 300
    u = [
        H("C03", M, "check_map_two_iterables", t,
          [PE + "_get_chunks", PE + "_process_chunk", PE + "_chain_from_iterable_of_lists"],
          "len(xs),len(ys)<=4, 1<=c<=5, element values unbounded ints"),
        H("C03", M, "check_map_shared_iterator", t,
          [PE + "_get_chunks", PE + "_process_chunk", PE + "_chain_from_iterable_of_lists"],
          "one one-shot iterator of length 0..7 passed 2..3 times, 1<=c<=8"),
        H("C03", M, "check_map_odd_values", t,
          [PE + "_get_chunks", PE + "_process_chunk", PE + "_chain_from_iterable_of_lists"],
          "<=3 results each an exception instance (ValueError, StopIteration) / None / 0 / an int, 1<=c<=4"),
        H("C03", M, "check_real_map", t, [PE + "ProcessPoolExecutor.map", PE + "_get_chunks", PE + "_process_chunk", PE + "_chain_from_iterable_of_lists"],
          "real map() on an executor with synchronous submit: iterable lengths 0..5 x 0..5, chunksize 1..6, max_workers 1..7 (contents fixed: map never looks at them)"),
        H("C03", M, "check_real_map_bad_chunksize", t, [PE + "ProcessPoolExecutor.map"], "chunksize -2..0 raises ValueError"),
        H("C03", M, "check_map_one_iterable", t,
          [PE + "_get_chunks", PE + "_process_chunk", PE + "_chain_from_iterable_of_lists"],
          "len(xs)<=6, 1<=c<=7"),
    ]
    S = "lokyverif.harness.c03_steps"
    big = tier == "thorough"
    u += [
        H("C03", S, "check_submit_step", 180 if not big else 600, [PE + "ProcessPoolExecutor.submit"],
          "queue counter q<=4, arbitrary subset of ids pending, broken/shutdown/interpreter-exit flags symbolic"),
        H("C03", S, "check_dispatch_step_5" if big else "check_dispatch_step_3", 900 if big else 180,
          [PE + "_ExecutorManagerThread.add_call_item_to_queue"],
          "<=5 (thorough) / <=3 (quick) queued ids each pending-or-cancelled, 0..4/0..3 free slots, 0..2/0..1 already running"),
        H("C03", S, "check_result_step_4" if big else "check_result_step_3", 1200 if big else 240,
          [PE + "_ExecutorManagerThread.process_result_item"],
          "ids 0..3 / 0..2, arbitrary pending subset, arbitrary dispatched subset of it, result id in or out of the map, value or exception"),
    ]
    u.append(SL("slice.x1_dispatch_vs_cancel", "x1_dispatch_vs_cancel", 16))
    if big:
        u.append(SL("slice.x1_dispatch_vs_cancel.n3", "x1_dispatch_vs_cancel", 24, params={"n": 3}))
    return u
