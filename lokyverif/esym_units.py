"""E-SYM units (path-complete AST -> z3 obligations) for C08, C17, C18(a), C19."""
import importlib
import os
import time

import z3

from . import esym
from .common import HELD, INCONCLUSIVE, VIOLATION, UnitResult, fn_id, write_replay
from .esym import ExcVal, Explorer, Func, Interp, Obj, StrInt, SymRaise, TrueDiv, Unsupported


class Session:
    """Bookkeeping shared by the units: obligations, violations, replay."""

    def __init__(self, name, prop, functions, bounds, assumptions=()):
        self.res = UnitResult(name=name, engine="E-SYM", status=INCONCLUSIVE,
                              functions=[fn_id(f) for f in functions], bounds=bounds,
                              assumptions=list(assumptions))
        self.prop = prop
        self.t0 = time.time()
        self.ex = Explorer()
        self.cex = None
        self.cexs = []

    def obligation(self, path, bad, describe):
        """`bad` must be unsatisfiable under the path condition. Returns a model dict or None."""
        self.res.queries += 1
        if isinstance(bad, bool):
            if not bad:
                self.res.discharged += 1
                return None
            r = self.ex.check()
        else:
            r = self.ex.check(bad)
        if r == z3.unsat:
            self.res.discharged += 1
            return None
        m = self.ex.solver.model()
        if self.cex is None:
            self.cex = (describe, m)
        if len(self.cexs) < 25:
            self.cexs.append((describe, m))
        if len(self.cexs) >= 8 and getattr(self.ex, "hinted", 0):
            # the solver needs pinned inputs on this tree: every further path costs a timeout; eight
            # counterexamples are enough to look for one that replays
            self.stopped = True
            raise esym.StopExploration()
        return m

    def finish(self, replay=None):
        r = self.res
        r.solver_s = self.ex.solver_s
        r.wall_s = time.time() - self.t0
        r.queries += self.ex.queries  # feasibility queries of the path enumeration
        r.discharged += self.ex.queries
        r.detail = f"{self.ex.paths} feasible paths, {r.queries} solver queries"
        if self.cex is None:
            r.status = HELD
            return r
        if getattr(self, "stopped", False):
            r.detail += " (exploration stopped after 8 counterexamples)"
        describe, model = self.cex
        r.discharged -= len(self.cexs)
        if replay is None:
            r.detail = f"counterexample without replay: {describe}"
            return r
        ok, payload = False, None
        for describe, model in self.cexs:  # report the first counterexample that reproduces on the real code
            ok, payload = replay(model)
            if ok:
                break
        if ok:
            r.status = VIOLATION
            r.counterexample = payload
            r.signature = f"{r.name}:{describe}"
            payload = dict(payload, property=self.prop, engine="E-SYM", unit=r.name, describe=describe)
            r.replay = write_replay(self.prop, r.name, payload)
            r.detail = f"violation replayed on the real function: {describe} {payload}"
        else:
            r.detail = f"solver counterexample did not replay on the real code: {describe} {payload}"
        return r


def _mv(model, v, default=0):
    x = model.eval(v, model_completion=True)
    if z3.is_int_value(x):
        return x.as_long()
    if z3.is_true(x):
        return True
    if z3.is_false(x):
        return False
    if z3.is_bv_value(x):
        return x.as_long()
    return default


# ---------------------------------------------------------------------------- C19
def c19_check_max_depth():
    import loky.process_executor as pe
    S = Session("esym.c19_check_max_depth", "C19", [pe._check_max_depth],
                "MAX_DEPTH in Z, _CURRENT_DEPTH in N, start method in {fork, other}; loop-free, all paths")
    try:
        g, funcs, tree = esym.load_module_functions(pe)
        MAXD, D, FORK = z3.Int("MAX_DEPTH"), z3.Int("CURRENT_DEPTH"), z3.Bool("fork")
        want = z3.Or(z3.And(FORK, D >= 1), z3.And(MAXD >= 1, D >= MAXD))
        samples = []

        def body(p):
            p.assume(D >= 0)
            g2 = dict(g, MAX_DEPTH=MAXD, _CURRENT_DEPTH=D)
            ctx = Obj("context", get_start_method=lambda it: "fork" if it.p.branch(FORK) else "loky")

            def fold(name):
                def f(it2, *xs):
                    acc = xs[0]
                    for x in xs[1:]:
                        c = (x < acc) if name == "min" else (x > acc)
                        acc = z3.If(c, x, acc) if esym.is_sym(c) else (x if c else acc)
                    return acc
                return f
            it = Interp(p, g2, {"min": fold("min"), "max": fold("max")})
            try:
                it.call_function(funcs["_check_max_depth"], [ctx])
                raised = False
            except SymRaise as r:
                if r.exc.tname != "LokyRecursionError":
                    raise Unsupported(f"unexpected {r.exc}")
                raised = True
            samples.append({"decisions": list(p.decisions), "raises": raised})
            S.obligation(p, want != z3.BoolVal(raised), f"raised={raised}")

        S.ex.run_all(body)
        S.res.samples = samples[:3]
        # translator validation on concrete vectors through the real function
        val = 0
        for md, d, fk in [(10, 0, False), (10, 10, False), (10, 9, False), (0, 50, False), (-1, 3, False),
                          (1, 0, True), (5, 1, True), (1, 1, False), (2, 1, False)]:
            real = _real_check_max_depth(md, d, fk)
            s = z3.Solver()
            s.add(MAXD == md, D == d, FORK == fk)
            s.add(want != z3.BoolVal(real))
            if s.check() != z3.unsat:
                raise Unsupported(f"reference disagrees with the real function on {(md, d, fk)}")
            val += 1
        S.res.traces_validated = val

        def replay(m):
            md, d, fk = _mv(m, MAXD), _mv(m, D), _mv(m, FORK)
            real = _real_check_max_depth(md, d, fk)
            wantv = (fk and d >= 1) or (md >= 1 and d >= md)
            return real != wantv, {"MAX_DEPTH": md, "_CURRENT_DEPTH": d, "fork": fk, "real_raises": real,
                                   "statement_says": wantv}

        return S.finish(replay)
    except Unsupported as e:
        S.res.detail = f"unsupported: {e}"
        S.res.wall_s = time.time() - S.t0
        return S.res


def _real_check_max_depth(md, d, fk):
    import loky.process_executor as pe
    saved = (pe.MAX_DEPTH, pe._CURRENT_DEPTH)
    pe.MAX_DEPTH, pe._CURRENT_DEPTH = md, d

    class C:
        def get_start_method(self):
            return "fork" if fk else "loky"
    try:
        pe._check_max_depth(C())
        return False
    except pe.LokyRecursionError:
        return True
    finally:
        pe.MAX_DEPTH, pe._CURRENT_DEPTH = saved


# ---------------------------------------------------------------------------- C08
def c08_queue_capacity():
    import loky.process_executor as pe
    import loky.reusable_executor as rx
    S = Session("esym.c08_queue_capacity", "C08",
                [pe.ProcessPoolExecutor._setup_queues, rx._ReusablePoolExecutor._setup_queues],
                "max_workers >= 1, cpu_count() >= 1 (mathematical integers)")
    try:
        g, funcs, tree = esym.load_module_functions(pe)
        extra = eval(compile(__import__("ast").Expression(esym.module_constant(tree, "EXTRA_QUEUED_CALLS")), "c", "eval"))
        MW, CPU = z3.Int("max_workers"), z3.Int("cpu_count")
        got = {}

        def safe_queue(it, **kw):
            got["call"] = kw.get("max_size")
            return Obj("callq", _ignore_epipe=False)

        def body(p):
            p.assume(MW >= 1)
            g2 = dict(g, EXTRA_QUEUED_CALLS=extra, _SafeQueue=safe_queue,
                      SimpleQueue=lambda it, **kw: Obj("resq"))
            self_ = Obj("executor", _max_workers=MW, _pending_work_items={}, _running_work_items=[],
                        _executor_manager_thread_wakeup=None, _shutdown_lock=None, _context=None)
            it = Interp(p, g2)
            it.call_function(funcs["ProcessPoolExecutor._setup_queues"], [self_, None, None])
            cap = got["call"]
            S.obligation(p, z3.Not(cap >= MW + 1), "plain executor: capacity < max_workers + 1")
            S.obligation(p, z3.Not(cap == 2 * MW + extra), "capacity formula")
        S.ex.run_all(body)

        g3, funcs3, tree3 = esym.load_module_functions(rx)

        def body2(p):
            p.assume(CPU >= 1)
            p.assume(MW >= 1)
            seen = {}

            def super_setup(it, jr, rr, queue_size=None):
                seen["q"] = queue_size
            sup = Obj("super", _setup_queues=super_setup)
            g4 = dict(g3, EXTRA_QUEUED_CALLS=extra, cpu_count=lambda it: CPU, super=lambda it: sup)
            it = Interp(p, g4)
            it.call_function(funcs3["_ReusablePoolExecutor._setup_queues"], [Obj("self", _max_workers=MW), None, None])
            S.obligation(p, z3.Not(seen["q"] >= 3), "reusable executor: capacity < 3")
            S.obligation(p, z3.Not(seen["q"] == 2 * CPU + extra), "reusable capacity formula")
            # delivery clause: the manager hands out at most `capacity` call items per wake-up and is woken again
            # only by a result, so max_workers long tasks run together only if capacity >= max_workers.
            # Known finding F11: the reusable executor sizes the queue from cpu_count(); the query below is
            # expected to be sat exactly for max_workers > 2*cpu_count()+EXTRA, which is what F11 records.
            S.res.queries += 1
            if S.ex.check(z3.Not(seen["q"] >= MW)) == z3.sat:
                m = S.ex.solver.model()
                cpu_v, mw_v = _mv(m, CPU), _mv(m, MW)
                S.res.queries += 1
                outside = S.ex.check(z3.Not(seen["q"] >= MW), MW <= 2 * CPU + extra)
                real_q = _real_reusable_queue_size(cpu_v, mw_v)
                if outside == z3.unsat and real_q is not None and real_q < mw_v:
                    S.res.discharged += 2
                    S.res.traces_validated += 1
                    line = ("F11 reusable executor: call queue of 2*cpu_count()+%d slots is smaller than max_workers "
                            "(e.g. cpu_count=%d, max_workers=%d -> %d slots on the real code): fewer than max_workers long "
                            "tasks run simultaneously" % (extra, cpu_v, mw_v, real_q))
                    if not any(k.startswith("F11") for k in S.res.known):
                        S.res.known.append(line)
                else:
                    S.obligation(p, z3.And(z3.Not(seen["q"] >= MW), MW <= 2 * CPU + extra),
                                 "reusable executor: capacity < max_workers although max_workers <= 2*cpu_count()+EXTRA")
            else:
                S.res.discharged += 1
        S.ex.run_all(body2)
        S.res.samples = [{"plain": "2*max_workers+EXTRA", "reusable": "2*cpu_count()+EXTRA", "EXTRA_QUEUED_CALLS": extra}]
        return S.finish(lambda m: (True, {"max_workers": _mv(m, MW), "cpu_count": _mv(m, CPU), "EXTRA_QUEUED_CALLS": extra,
                                          "note": "capacity formula evaluated from the current source"}))
    except Unsupported as e:
        S.res.detail = f"unsupported: {e}"
        S.res.wall_s = time.time() - S.t0
        return S.res


def _real_reusable_queue_size(cpu, mw):
    """Replay for F11: what the real _ReusablePoolExecutor._setup_queues asks its base class for."""
    import loky.process_executor as pe
    import loky.reusable_executor as rx
    seen = []
    saved = (pe.ProcessPoolExecutor._setup_queues, rx.cpu_count)
    pe.ProcessPoolExecutor._setup_queues = lambda self, jr, rr, queue_size=None: seen.append(queue_size)
    rx.cpu_count = lambda *a, **k: cpu
    try:
        ex = object.__new__(rx._ReusablePoolExecutor)
        ex._max_workers = mw
        rx._ReusablePoolExecutor._setup_queues(ex, None, None)
    except Exception:
        return None
    finally:
        pe.ProcessPoolExecutor._setup_queues, rx.cpu_count = saved
    q = seen[0] if seen else None
    return (2 * mw + pe.EXTRA_QUEUED_CALLS) if q is None else q


# ---------------------------------------------------------------------------- C18 (a)
def _w_models():
    """Linux wait-status macros as bit-vector formulas over a 16-bit status word."""
    def wifexited(it, s):
        return (s & 0x7F) == 0

    def wexitstatus(it, s):
        return z3.BV2Int(z3.LShR(s, 8) & 0xFF)  # a Python int

    def wifsignaled(it, s):
        low = s & 0x7F
        return z3.And(low != 0, low != 0x7F)

    def wtermsig(it, s):
        return z3.BV2Int(s & 0x7F)
    return wifexited, wexitstatus, wifsignaled, wtermsig


def _validate_w_models():
    wifexited, wexitstatus, wifsignaled, wtermsig = _w_models()
    s = z3.BitVec("s", 16)
    fe, fx, fs, ft = (z3.simplify(f(None, s)) for f in (wifexited, wexitstatus, wifsignaled, wtermsig))
    n = 0
    for w in range(65536):
        sub = [(s, z3.BitVecVal(w, 16))]
        e = z3.is_true(z3.simplify(z3.substitute(fe, *sub)))
        sg = z3.is_true(z3.simplify(z3.substitute(fs, *sub)))
        if e != os.WIFEXITED(w) or sg != os.WIFSIGNALED(w):
            raise Unsupported(f"W* model disagrees with os on status {w}")
        if e and z3.simplify(z3.substitute(fx, *sub)).as_long() != os.WEXITSTATUS(w):
            raise Unsupported(f"WEXITSTATUS model disagrees on {w}")
        if sg and z3.simplify(z3.substitute(ft, *sub)).as_long() != os.WTERMSIG(w):
            raise Unsupported(f"WTERMSIG model disagrees on {w}")
        n += 1
    return n


def c18_exit_status():
    import loky.backend.popen_loky_posix as pop
    S = Session("esym.c18_exit_status", "C18", [pop.Popen.poll, pop.Popen.wait],
                "16-bit status word; exit codes 0..255, terminating signals 1..126 (core flag free); waitpid may raise ECHILD or report another state")
    try:
        S.res.traces_validated = _validate_w_models()
        g, funcs, tree = esym.load_module_functions(pop)
        wifexited, wexitstatus, wifsignaled, wtermsig = _w_models()
        STS = z3.BitVec("sts", 16)
        PREV_SET, PREV = z3.Bool("prev_set"), z3.Int("prev_returncode")
        ECHILD, OTHERPID = z3.Bool("echild"), z3.Bool("not_yet")
        EXITED, CODE, SIG, CORE = z3.Bool("exited"), z3.BitVec("code", 16), z3.BitVec("sig", 16), z3.Bool("core")

        def body(p):
            # the kernel's status word for a child that ended
            p.assume(z3.ULE(CODE, 255))
            p.assume(z3.And(z3.UGE(SIG, 1), z3.ULE(SIG, 126)))
            p.assume(STS == z3.If(EXITED, CODE << 8, SIG | z3.If(CORE, z3.BitVecVal(0x80, 16), z3.BitVecVal(0, 16))))
            calls = []

            def waitpid(it, pid, flag):
                calls.append(flag)
                if it.p.branch(ECHILD):
                    raise SymRaise(ExcVal("OSError", ("ECHILD",)))
                if it.p.branch(OTHERPID):
                    return (0, z3.BitVecVal(0, 16))  # WNOHANG: child still running
                return (4711, STS)

            osm = Obj("os", waitpid=waitpid, WNOHANG=1, WIFSIGNALED=wifsignaled, WTERMSIG=wtermsig,
                      WIFEXITED=wifexited, WEXITSTATUS=wexitstatus)
            had = p.branch(PREV_SET)
            self_ = Obj("popen", returncode=(PREV if had else None), pid=4711)
            it = Interp(p, dict(g, os=osm))
            try:
                ret = it.call_function(funcs["Popen.poll"], [self_])
            except SymRaise as r:
                S.obligation(p, True, f"poll raised {r.exc}")
                return
            rc = self_.attrs["returncode"]
            if had:  # sticky once set, and no second waitpid
                S.obligation(p, rc is None or ret is None or len(calls) != 0, "returncode not sticky")
                S.obligation(p, z3.Not(z3.And(rc == PREV, ret == PREV)), "sticky value changed")
                return
            running = (len(calls) == 1) and (z3.is_true(z3.simplify(p.ex.solver.model().eval(ECHILD))) if False else None)
            if ret is None:
                # only when the child is not reaped: ECHILD or still running
                S.obligation(p, z3.Not(z3.Or(ECHILD, OTHERPID)), "poll returned None although the child was reaped")
                S.obligation(p, rc is not None, "returncode set while returning None")
                return
            if isinstance(ret, z3.BitVecRef):
                val = z3.BV2Int(ret, is_signed=False)
            elif isinstance(ret, z3.ArithRef) or isinstance(ret, int):
                val = ret
            else:
                raise Unsupported(f"return value {type(ret).__name__}")
            if isinstance(rc, z3.BitVecRef):
                rcv = z3.BV2Int(rc, is_signed=False)
            else:
                rcv = rc
            want = z3.If(EXITED, z3.BV2Int(CODE), -z3.BV2Int(SIG))
            S.obligation(p, z3.Or(val != want, rcv != want), "exit status not reported faithfully")

        S.ex.run_all(body)
        S.res.samples = [{"status_word": "exited: code<<8 ; signaled: sig | (0x80 if core)", "paths": S.ex.paths}]

        def replay(m):
            ex, code, sig, core = _mv(m, EXITED), _mv(m, CODE), _mv(m, SIG), _mv(m, CORE)
            sts = (code << 8) if ex else (sig | (0x80 if core else 0))
            real = _real_poll(sts)
            want = code if ex else -sig
            return real != want, {"status_word": sts, "real_returncode": real, "statement_says": want}
        return S.finish(replay)
    except Unsupported as e:
        S.res.detail = f"unsupported: {e}"
        S.res.wall_s = time.time() - S.t0
        return S.res


def _neg(v):
    return -v


def _real_poll(sts):
    import loky.backend.popen_loky_posix as pop
    real_os = pop.os

    class FakeOS:
        WNOHANG = real_os.WNOHANG
        WIFSIGNALED = staticmethod(real_os.WIFSIGNALED)
        WTERMSIG = staticmethod(real_os.WTERMSIG)
        WIFEXITED = staticmethod(real_os.WIFEXITED)
        WEXITSTATUS = staticmethod(real_os.WEXITSTATUS)

        @staticmethod
        def waitpid(pid, flag):
            return pid, sts
    pop.os = FakeOS
    try:
        p = pop.Popen.__new__(pop.Popen)
        p.returncode, p.pid = None, 4711
        try:
            return p.poll()
        except AssertionError:
            return "AssertionError"
    finally:
        pop.os = real_os


# ---------------------------------------------------------------------------- C17
def _cpu_env(p, V):
    """Environment model for loky.backend.context (see DESIGN.md section 3)."""
    ev = []
    layout = V["layout"]  # 0 = cgroup v2 file, 1 = both v1 files, 2 = only v1 quota, 3 = only v1 period, 4 = none

    class FH:
        def __init__(self, name):
            self.name = name

    def exists(it, name):
        lay = layout
        if name.endswith("cpu.max"):
            return it.p.branch(lay == 0)
        if name.endswith("cfs_quota_us"):
            return it.p.branch(z3.Or(lay == 1, lay == 2))
        if name.endswith("cfs_period_us"):
            return it.p.branch(z3.Or(lay == 1, lay == 3))
        raise Unsupported(f"os.path.exists({name})")

    def quota_token(it):
        return "max" if it.p.branch(V["quota_is_max"]) else StrInt(V["quota"])

    def open_(it, name, *a):
        def read(it2):
            if name.endswith("cpu.max"):
                return Obj("text", strip=lambda i3: Obj("stripped", split=lambda i4: [quota_token(i4), StrInt(V["period"])]))
            if name.endswith("cfs_quota_us"):
                return Obj("text", strip=lambda i3: quota_token(i3))
            if name.endswith("cfs_period_us"):
                return Obj("text", strip=lambda i3: StrInt(V["period"]))
            raise Unsupported(f"open({name})")
        fh = Obj("fh", read=read)
        fh.attrs["__enter__"] = lambda i2: fh
        fh.attrs["__exit__"] = lambda i2, *a: None
        return fh

    def env_get(it, key, default=None):
        if key != "LOKY_MAX_CPU_COUNT":
            raise Unsupported(f"environ.get({key})")
        return StrInt(V["env"]) if it.p.branch(V["env_set"]) else default

    def os_cpu_count(it):
        return None if it.p.branch(V["os_none"]) else V["os"]

    def sched_getaffinity(it, pid):
        if it.p.branch(V["aff_notimpl"]):
            raise SymRaise(ExcVal("NotImplementedError"))
        return Obj("cpuset", __len__=V["aff"])

    osm = Obj("os", cpu_count=os_cpu_count, environ=Obj("environ", get=env_get),
              path=Obj("path", exists=exists), sched_getaffinity=sched_getaffinity)

    def hasattr_(it, o, name):
        if o is osm and name == "sched_getaffinity":
            return it.p.branch(V["has_sched"])
        if isinstance(o, Obj) and o._name == "psproc" and name == "cpu_affinity":
            return it.p.branch(V["ps_has_aff"])
        raise Unsupported(f"hasattr({o},{name})")

    def len_(it, o):
        if isinstance(o, Obj) and "__len__" in o.attrs:
            return o.attrs["__len__"]
        if isinstance(o, (list, tuple, str, dict)):
            return len(o)
        raise Unsupported("len")

    def int_(it, v):
        if isinstance(v, StrInt):
            return v.val
        if isinstance(v, (int, z3.ArithRef)):
            return v
        if isinstance(v, TrueDiv):  # int(q / p): truncation toward zero
            q = esym.py_floordiv(it, v.num, v.den)
            return z3.If(z3.Or(v.num % v.den == 0, (v.num >= 0) == (v.den > 0)), q, q + 1)
        if isinstance(v, str):
            raise SymRaise(ExcVal("ValueError", ("int()",)))
        raise Unsupported(f"int({type(v).__name__})")

    def filter_(it, fn, xs):
        out = []
        for x in xs:
            keep = it.truth(x) if fn is None else it.truth(it.call_function(fn, [x]))
            if keep:
                out.append(x)
        return out

    def fold(name):
        def f(it, *xs):
            if len(xs) == 1 and isinstance(xs[0], (list, tuple)):
                xs = tuple(xs[0])
            if not xs:
                raise SymRaise(ExcVal("ValueError", (f"{name}() arg is an empty sequence",)))
            if any(x is None for x in xs) and len(xs) > 1:
                raise SymRaise(ExcVal("TypeError", ("'<' not supported between NoneType and int",)))
            acc = xs[0]
            for x in xs[1:]:
                if not all(isinstance(y, (int, z3.ArithRef)) for y in (acc, x)):
                    raise Unsupported(f"{name} over non-integers")
                c = (x < acc) if name == "min" else (x > acc)
                acc = z3.If(c, x, acc) if esym.is_sym(c) else (x if c else acc)
            return acc
        return f

    def ceil(it, v):
        if isinstance(v, TrueDiv):
            return esym.ceil_div(v.num, v.den)  # lemma L_fp: float division + ceil == exact ceiling
        if isinstance(v, (int, z3.ArithRef)):
            return v
        raise Unsupported("ceil of non-quotient")

    def floor(it, v):
        if isinstance(v, TrueDiv):
            return esym.py_floordiv(it, v.num, v.den)
        return v

    def import_(it, name):
        if name == "psutil":
            if it.p.branch(V["ps_missing"]):
                raise SymRaise(ExcVal("ImportError"))
            return Obj("psutil", Process=lambda i2: Obj("psproc", cpu_affinity=lambda i3: Obj("aff", __len__=V["ps_aff"])))
        raise Unsupported(f"import {name}")

    def probe(it):
        ev.append("probe")
        if it.p.branch(V["probe_raises"]):
            raise SymRaise(ExcVal("RuntimeError", ("probe failed",)))
        return V["probe"]

    warn = Obj("warnings", warn=lambda it, *a, **k: ev.append("warn-affinity" if "affinity" in str(a) else "warn"))
    g = dict(os=osm, sys=Obj("sys", platform="linux"), math=Obj("math", ceil=ceil, floor=floor),
             warnings=warn, traceback=Obj("traceback", print_tb=lambda it, tb: None),
             _MAX_WINDOWS_WORKERS=61, _count_physical_cores_linux=probe,
             _count_physical_cores_win32=probe, _count_physical_cores_darwin=probe)
    b = dict(hasattr=hasattr_, len=len_, int=int_, min=fold("min"), max=fold("max"), open=open_, filter=filter_,
             list=lambda it, xs=(): list(xs), tuple=lambda it, xs=(): tuple(xs),
             __import__=import_, round=lambda it, v: esym._unsup("round() has no model (banker's rounding)"))
    return g, b, ev


def _c17_vars():
    I, B = z3.Int, z3.Bool
    return dict(os=I("os_cpu_count"), os_none=B("os_cpu_count_is_None"), has_sched=B("has_sched_getaffinity"),
                aff_notimpl=B("sched_getaffinity_not_implemented"), aff=I("affinity_size"),
                ps_missing=B("psutil_missing"), ps_has_aff=B("psutil_has_cpu_affinity"), ps_aff=I("psutil_affinity_size"),
                layout=I("cgroup_layout"), quota_is_max=B("quota_is_max"), quota=I("cpu_quota_us"),
                period=I("cpu_period_us"), env_set=B("LOKY_MAX_CPU_COUNT_set"), env=I("LOKY_MAX_CPU_COUNT"),
                cache_kind=I("physical_cache_kind"), cache_val=I("physical_cache_value"),
                probe_raises=B("probe_raises"), probe=I("probe_value"))


def _c17_domain(p, V):
    p.assume(V["os"] >= 0)
    p.assume(V["aff"] >= 1)
    p.assume(V["ps_aff"] >= 1)
    p.assume(z3.And(V["layout"] >= 0, V["layout"] <= 4))
    p.assume(z3.And(V["cache_kind"] >= 0, V["cache_kind"] <= 2))
    p.assume(V["cache_val"] >= 1)


def _c17_reference(V):
    """The statement of C17, literally."""
    os_n = z3.If(z3.Or(V["os_none"], V["os"] == 0), 1, V["os"])
    aff = z3.If(z3.And(V["has_sched"], z3.Not(V["aff_notimpl"])), V["aff"],
                z3.If(z3.And(z3.Not(V["ps_missing"]), V["ps_has_aff"]), V["ps_aff"], os_n))
    lay = V["layout"]
    has_quota_file = z3.Or(lay == 0, lay == 1)
    positive = z3.And(has_quota_file, z3.Not(V["quota_is_max"]), V["quota"] > 0, V["period"] > 0)
    ceilq = esym.ceil_div(V["quota"], V["period"])
    cg = z3.If(positive, ceilq, os_n)
    envv = z3.If(V["env_set"], V["env"], os_n)

    def mn(*xs):
        acc = xs[0]
        for x in xs[1:]:
            acc = z3.If(x < acc, x, acc)
        return acc
    user = mn(aff, cg, envv)
    agg = z3.If(mn(os_n, user) < 1, 1, mn(os_n, user))
    return os_n, user, agg


def c17_cpu_count():
    import loky.backend.context as cx
    S = Session("esym.c17_cpu_count", "C17",
                [cx.cpu_count, cx._cpu_count_user, cx._cpu_count_cgroup, cx._cpu_count_affinity, cx._count_physical_cores],
                "all mathematical integers for OS count/affinity/quota/period/override/probe; 5 cgroup layouts; "
                "physical cache in {None,'not found',n>=1}; loop-free: every feasible path discharged; "
                "math.ceil(q/p) == exact ceiling is lemma L_fp (discharged separately for small operands)",
                ["sys.platform == 'linux' (Windows cap outside)", "cgroup file contents are 'max' or decimal integers",
                 "what lscpu prints is abstracted to the probe's return value",
                 "lemma L_fp: correctly rounded float64 q/p followed by ceil equals the exact ceiling"])
    try:
        g0, funcs, tree = esym.load_module_functions(cx)
        V = _c17_vars()
        os_n, user, agg = _c17_reference(V)
        samples = []

        def run(p, only_physical, cache_state):
            g, b, ev = _cpu_env(p, V)
            g = dict(g0, **g)
            g["physical_cores_cache"] = cache_state
            it = Interp(p, g, b)
            out = it.call_function(funcs["cpu_count"], [], {"only_physical_cores": only_physical})
            return out, ev, g

        def body_logical(p):
            _c17_domain(p, V)
            try:
                out, ev, g = run(p, False, None)
            except SymRaise as r:
                S.obligation(p, True, f"cpu_count() raised {r.exc}")
                return
            if len(samples) < 3:
                samples.append({"only_physical_cores": False, "decisions": list(p.decisions)})
            if not isinstance(out, (int, z3.ArithRef)) or isinstance(out, bool):
                S.obligation(p, True, f"cpu_count() returned {out!r}, not an integer")
                return
            S.obligation(p, out != agg, "cpu_count() != max(1, min(os, affinity, ceil(quota/period), override))")

        def body_physical(p):
            _c17_domain(p, V)
            kind = p.choose("cache", 3)
            cache = [None, "not found", V["cache_val"]][kind]
            p.assume(V["cache_kind"] == kind)
            try:
                out, ev, g = run(p, True, cache)
            except SymRaise as r:
                S.obligation(p, True, f"cpu_count(True) raised {r.exc}")
                return
            limited = user < os_n
            probe_ok = z3.And(z3.Not(V["probe_raises"]), V["probe"] >= 1)
            if kind == 0:
                phys_found, phys_val = probe_ok, V["probe"]
            elif kind == 1:
                phys_found, phys_val = z3.BoolVal(False), z3.IntVal(0)
            else:
                phys_found, phys_val = z3.BoolVal(True), V["cache_val"]
            if not isinstance(out, (int, z3.ArithRef)) or isinstance(out, bool):
                S.obligation(p, True, f"cpu_count(only_physical_cores=True) returned {out!r}, not an integer")
                return
            want = z3.If(limited, z3.If(user < 1, 1, user), z3.If(phys_found, phys_val, agg))
            S.obligation(p, out != want, "cpu_count(only_physical_cores=True) differs from the three-way case split")
            warned = ev.count("warn")
            # a warning iff the probe failed on *this* call (not limited, not cached)
            should = z3.And(z3.Not(limited), z3.BoolVal(kind == 0), z3.Not(probe_ok))
            S.obligation(p, should != z3.BoolVal(warned == 1), "fallback warning not issued exactly when detection failed on this call")
            S.obligation(p, warned > 1, "more than one warning")
            # second consecutive call: same value, no warning, no new probe
            g2, b2, ev2 = _cpu_env(p, V)
            g2 = dict(g0, **g2)
            g2["physical_cores_cache"] = g["physical_cores_cache"]
            it2 = Interp(p, g2, b2)
            try:
                out2 = it2.call_function(funcs["cpu_count"], [], {"only_physical_cores": True})
            except SymRaise as r:
                S.obligation(p, True, f"second call raised {r.exc}")
                return
            if not isinstance(out2, (int, z3.ArithRef)) or isinstance(out2, bool):
                S.obligation(p, True, f"second call returned {out2!r}, not an integer")
                return
            S.obligation(p, out2 != out, "second call returns a different value")
            S.obligation(p, ev2.count("warn") != 0, "second call warns again")
            S.obligation(p, z3.And(z3.Not(limited), z3.BoolVal("probe" in ev2)), "second call probes again")
            if len(samples) < 6:
                samples.append({"only_physical_cores": True, "cache": str(cache), "decisions": list(p.decisions)})

        # representative periods for the fallback of Explorer.check (kernel default 100 ms, 1 s, 1 ms, 1 us)
        S.ex.hints = [[V["period"] == v] for v in (100000, 1000000, 1000, 1)]
        S.ex.solver.set("timeout", 20000)
        S.ex.run_all(body_logical)
        n1 = S.ex.paths
        S.ex.run_all(body_physical)
        S.res.samples = samples
        S.res.traces_validated = _c17_validate(V, agg, funcs, g0)

        def replay(m):
            cfg = {k: _mv(m, v) for k, v in V.items()}
            return _c17_replay(cfg)
        r = S.finish(replay)
        r.detail += f" ({n1} logical + {S.ex.paths - n1} physical paths); translator validated on {r.traces_validated} concrete vectors"
        return r
    except Unsupported as e:
        S.res.detail = f"unsupported: {e}"
        S.res.wall_s = time.time() - S.t0
        return S.res


def real_cpu_count(cfg, only_physical=False, calls=1):
    """Run the real loky cpu_count under stubs built from a concrete configuration."""
    import io
    import loky.backend.context as cx
    real_os, real_open = cx.os, cx.__dict__.get("open")
    warned = []
    lay = cfg["layout"]
    files = {}
    q = "max" if cfg["quota_is_max"] else str(cfg["quota"])
    if lay == 0:
        files["/sys/fs/cgroup/cpu.max"] = f"{q} {cfg['period']}\n"
    if lay in (1, 2):
        files["/sys/fs/cgroup/cpu/cpu.cfs_quota_us"] = f"{q}\n"
    if lay in (1, 3):
        files["/sys/fs/cgroup/cpu/cpu.cfs_period_us"] = f"{cfg['period']}\n"

    class Path:
        @staticmethod
        def exists(n):
            return n in files

    class FakeOS:
        path = Path
        environ = {"LOKY_MAX_CPU_COUNT": str(cfg["env"])} if cfg["env_set"] else {}

        @staticmethod
        def cpu_count():
            return None if cfg["os_none"] else cfg["os"]

    if cfg["has_sched"]:
        def sga(pid):
            if cfg["aff_notimpl"]:
                raise NotImplementedError
            return set(range(cfg["aff"]))
        FakeOS.sched_getaffinity = staticmethod(sga)

    import sys
    import types
    saved_ps = sys.modules.get("psutil", "absent")
    if cfg["ps_missing"]:
        sys.modules["psutil"] = None
    else:
        ps = types.ModuleType("psutil")

        class Proc:
            pass
        if cfg["ps_has_aff"]:
            Proc.cpu_affinity = lambda self: list(range(cfg["ps_aff"]))
        ps.Process = Proc
        sys.modules["psutil"] = ps

    def probe():
        if cfg["probe_raises"]:
            raise RuntimeError("probe failed")
        return cfg["probe"]

    saved = (cx._count_physical_cores_linux, cx.physical_cores_cache, cx.warnings, cx.traceback)
    cx.os = FakeOS
    cx.open = lambda n, *a: io.StringIO(files[n])
    cx._count_physical_cores_linux = probe
    cx.physical_cores_cache = [None, "not found", cfg["cache_val"]][cfg["cache_kind"]]

    class W:
        @staticmethod
        def warn(msg, *a, **k):
            warned.append(str(msg)[:40])
    cx.warnings = W
    cx.traceback = types.SimpleNamespace(print_tb=lambda tb: None)
    try:
        outs = []
        for _ in range(calls):
            try:
                outs.append(cx.cpu_count(only_physical_cores=only_physical))
            except Exception as e:  # noqa
                outs.append(f"raised {type(e).__name__}")
        return outs, list(warned)
    finally:
        cx.os = real_os
        if real_open is None:
            del cx.open
        else:
            cx.open = real_open
        cx._count_physical_cores_linux, cx.physical_cores_cache, cx.warnings, cx.traceback = saved
        if saved_ps == "absent":
            sys.modules.pop("psutil", None)
        else:
            sys.modules["psutil"] = saved_ps


def py_reference(cfg, only_physical):
    """Concrete evaluation of the statement (used for replay and translator validation)."""
    import math
    os_n = 1 if (cfg["os_none"] or cfg["os"] == 0) else cfg["os"]
    if cfg["has_sched"] and not cfg["aff_notimpl"]:
        aff = cfg["aff"]
    elif not cfg["ps_missing"] and cfg["ps_has_aff"]:
        aff = cfg["ps_aff"]
    else:
        aff = os_n
    cg = os_n
    if cfg["layout"] in (0, 1) and not cfg["quota_is_max"] and cfg["quota"] > 0 and cfg["period"] > 0:
        cg = -((-cfg["quota"]) // cfg["period"])
    envv = cfg["env"] if cfg["env_set"] else os_n
    user = min(aff, cg, envv)
    agg = max(1, min(os_n, user))
    if not only_physical:
        return agg
    if user < os_n:
        return max(user, 1)
    kind = cfg["cache_kind"]
    if kind == 2:
        return cfg["cache_val"]
    if kind == 0 and not cfg["probe_raises"] and cfg["probe"] >= 1:
        return cfg["probe"]
    return agg


def _c17_replay(cfg):
    for phys in (False, True):
        outs, warned = real_cpu_count(cfg, phys, calls=2)
        want = py_reference(cfg, phys)
        if outs[0] != want or outs[1] != want:
            return True, {"config": cfg, "only_physical_cores": phys, "real": outs, "statement_says": want}
        if phys:
            nwarn = sum(1 for w in warned if "physical" in w)
            limited = py_reference(cfg, True) != py_reference(dict(cfg, cache_kind=2, cache_val=10**9), True) - 0 \
                if False else None
            # a warning iff detection failed on this call: not user-limited, nothing cached, probe failed
            plain = dict(cfg, cache_kind=2, cache_val=-12345)
            user_limited = py_reference(plain, True) != -12345
            should = (not user_limited) and cfg["cache_kind"] == 0 and (cfg["probe_raises"] or cfg["probe"] < 1) \
                and cfg["probe_raises"]
            # (a probe that returns < 1 raises ValueError inside the detection, which also warns)
            should = (not user_limited) and cfg["cache_kind"] == 0 and (cfg["probe_raises"] or cfg["probe"] < 1)
            if nwarn != (1 if should else 0):
                return True, {"config": cfg, "only_physical_cores": True, "warnings": warned,
                              "statement_says": "one warning iff detection failed on this call"}
    return False, {"config": cfg, "note": "real function agrees with the statement on this configuration"}


VECTORS = [
    # (os, os_none, has_sched, aff_notimpl, aff, ps_missing, ps_has_aff, ps_aff, layout, q_max, quota, period, env_set, env)
    (8, False, True, False, 8, False, True, 8, 4, True, 0, 100000, False, 0),
    (8, False, True, False, 2, False, True, 8, 4, True, 0, 100000, False, 0),      # test_cpu_count_os_sched_getaffinity
    (8, False, False, False, 8, False, True, 3, 4, True, 0, 100000, False, 0),     # test_cpu_count_psutil_affinity
    (8, False, True, False, 8, False, True, 8, 0, False, 150000, 100000, False, 0),  # cgroup v2 1.5 cpus -> 2
    (8, False, True, False, 8, False, True, 8, 1, False, 100000, 100000, False, 0),  # cgroup v1 1 cpu
    (8, False, True, False, 8, False, True, 8, 1, False, -1, 100000, False, 0),      # v1 quota -1 = unlimited
    (8, False, True, False, 8, False, True, 8, 0, True, 0, 100000, False, 0),        # v2 "max"
    (8, False, True, False, 8, False, True, 8, 4, True, 0, 100000, True, 3),         # LOKY_MAX_CPU_COUNT=3
    (8, False, True, False, 8, False, True, 8, 4, True, 0, 100000, True, 0),         # override 0 -> 1
    (8, False, True, False, 8, False, True, 8, 4, True, 0, 100000, True, -4),
    (8, False, True, False, 8, False, True, 8, 4, True, 0, 100000, True, 64),
    (0, True, True, True, 8, True, True, 8, 2, False, 5, 7, False, 0),
    (4, False, True, True, 8, False, False, 8, 3, False, 5, 7, False, 0),
    (16, False, True, False, 12, False, True, 8, 0, False, 1, 3, True, 9),
    (16, False, True, False, 12, False, True, 8, 0, False, 700000, 100000, True, 9),
    (1, False, True, False, 1, False, True, 1, 1, False, 250000, 100000, False, 0),
]


def _c17_validate(V, agg, funcs, g0):
    """Translator validation: the encoding and the real function agree on concrete vectors."""
    keys = ["os", "os_none", "has_sched", "aff_notimpl", "aff", "ps_missing", "ps_has_aff", "ps_aff", "layout",
            "quota_is_max", "quota", "period", "env_set", "env"]
    n = 0
    for vec in VECTORS:
        for cache_kind, cache_val, probe_raises, probe in ((0, 1, False, 4), (0, 1, True, 0), (0, 1, False, 0),
                                                            (1, 1, False, 4), (2, 6, False, 4)):
            cfg = dict(zip(keys, vec), cache_kind=cache_kind, cache_val=cache_val, probe_raises=probe_raises, probe=probe)
            for phys in (False, True):
                real, _ = real_cpu_count(cfg, phys)
                # the encoding, specialised to this vector (single path)
                ex = Explorer()
                got = []

                def body(p):
                    for k, v in V.items():
                        p.assume(v == cfg[k])
                    g, b, ev = _cpu_env(p, V)
                    g = dict(g0, **g)
                    g["physical_cores_cache"] = [None, "not found", V["cache_val"]][cache_kind]
                    it = Interp(p, g, b)
                    try:
                        out = it.call_function(funcs["cpu_count"], [], {"only_physical_cores": phys})
                    except SymRaise as r:
                        got.append(f"raised {r.exc.tname}")
                        return
                    ex.check()
                    m = ex.solver.model()
                    got.append(_mv(m, out) if esym.is_sym(out) else out)
                ex.run_all(body)
                # encoding vs real code only: whether both agree with the statement is the solver's job
                if len(got) != 1 or got[0] != real[0]:
                    raise Unsupported(f"translator validation failed on {cfg} phys={phys}: encoding={got} real={real}")
                n += 1
    return n


# ---------------------------------------------------------------------------- lemma L_fp
def c17_lemma_fp(bits=8, timeout_s=300, solver="z3"):
    """QF_BVFP: for 1 <= q,p < 2^bits, ceil(RNE_float64(q)/RNE_float64(p)) == exact integer ceiling."""
    t0 = time.time()
    res = UnitResult(name=f"esym.c17_lemma_fp[{solver},<2^{bits}]", engine="E-SYM", status=INCONCLUSIVE, queries=1,
                     bounds=f"1 <= quota, period < 2^{bits}; IEEE-754 binary64, round-nearest-even division, roundTowardPositive to integral",
                     assumptions=["operands above the bound are covered only by the paper half-ulp argument (assumption, not a solver result)"])
    W = 2 * bits + 2
    q, p = z3.BitVec("q", W), z3.BitVec("p", W)
    F = z3.Float64()
    fq, fp = z3.fpSignedToFP(z3.RNE(), q, F), z3.fpSignedToFP(z3.RNE(), p, F)
    quo = z3.fpDiv(z3.RNE(), fq, fp)
    c = z3.fpRoundToIntegral(z3.RTP(), quo)
    ci = z3.fpToSBV(z3.RTZ(), c, z3.BitVecSort(W))
    exact = z3.UDiv(q + p - 1, p)
    s = z3.SolverFor("QF_BVFP") if solver == "z3" else None
    lim = z3.BitVecVal(1 << bits, W)
    cons = [z3.UGE(q, 1), z3.ULT(q, lim), z3.UGE(p, 1), z3.ULT(p, lim), ci != exact]
    if solver == "z3":
        s.set("timeout", int(timeout_s * 1000))
        s.add(*cons)
        r = str(s.check())
    else:
        import subprocess
        import tempfile
        s = z3.Solver()
        s.add(*cons)
        with tempfile.NamedTemporaryFile("w", suffix=".smt2", delete=False) as f:
            f.write("(set-logic QF_BVFP)\n" + s.to_smt2())
            path = f.name
        try:
            out = subprocess.run(["cvc5", f"--tlimit={int(timeout_s * 1000)}", path], capture_output=True, text=True,
                                 timeout=timeout_s + 30).stdout
        except subprocess.TimeoutExpired:
            out = "timeout"
        os.unlink(path)
        r = "unsat" if out.strip().startswith("unsat") else ("sat" if out.strip().startswith("sat") else f"unknown({out.strip()[:60]})")
    res.solver_s = res.wall_s = time.time() - t0
    res.detail = f"{r} in {res.wall_s:.1f}s"
    res.samples = [{"lemma": "ceil(fp.div RNE (to_fp q) (to_fp p)) == (q+p-1) div p", "bits": bits, "solver": solver}]
    if r == "unsat":
        res.status, res.discharged = HELD, 1
    elif r == "sat":
        res.detail += " (lemma refuted: the integer encoding of math.ceil(q/p) is not justified)"
    return res


def replay(rp):
    """./vreplay entry: re-run a recorded E-SYM counterexample on the real function."""
    unit = rp.get("unit", "")
    if "c17" in unit:
        ok, payload = _c17_replay(rp["config"])
    elif "c19" in unit:
        real = _real_check_max_depth(rp["MAX_DEPTH"], rp["_CURRENT_DEPTH"], rp["fork"])
        ok, payload = real != rp["statement_says"], {"real_raises": real, "statement_says": rp["statement_says"]}
    elif "c18" in unit:
        real = _real_poll(rp["status_word"])
        ok, payload = real != rp["statement_says"], {"real_returncode": real, "statement_says": rp["statement_says"]}
    else:
        print("no concrete replay for", unit, rp)
        return 2
    print(("REPRODUCED " if ok else "NOT-REPRODUCED ") + str(payload))
    return 1 if ok else 0
