"""E-SIM for M_cond: replay a solver trace on the *real* loky Condition/Event code.

Real `Condition`/`Event`/`Lock`/`Semaphore` objects are built with `__new__`; their
`_semlock` is a Python twin of the C SemLock model that yields to a baton scheduler at
every visible operation.  Threads run the real driver functions and the real loky
methods; the trace (thread, object, method, outcome) is followed step by step.  Any
divergence = model/translator error (never reported as a violation).
"""
import threading
import time

RECURSIVE_MUTEX, SEMAPHORE = 0, 1


class Divergence(Exception):
    pass


class _Abort(BaseException):
    pass


class Sched:
    def __init__(self, trace, timeout=20.0):
        self.trace = [e for e in trace if not e.get("idle") and e.get("label") != "start"]
        self.pos = 0
        self.cv = threading.Condition()
        self.waiting = {}    # thread name -> (obj, method, enabled_fn)
        self.finished = {}   # thread name -> exception or None
        self.error = None
        self.abort = False
        self.deadline = time.time() + timeout
        self.log = []

    def tname(self):
        return threading.current_thread().name

    def request(self, obj, method, enabled):
        """Block until the trace schedules this thread's operation; returns the outcome label."""
        me = self.tname()
        with self.cv:
            self.waiting[me] = (obj, method, enabled)
            self.cv.notify_all()
            while True:
                if self.abort:
                    raise _Abort()
                if self.pos < len(self.trace):
                    e = self.trace[self.pos]
                    if e["thread"] == me:
                        if (e["obj"], e["method"]) != (obj, method):
                            self.error = Divergence(f"step {self.pos}: model expects {e['thread']} to do "
                                                    f"{e['obj']}.{e['method']} but the real code does {obj}.{method}")
                            self.abort = True
                            self.cv.notify_all()
                            raise _Abort()
                        lab = e["outcome"]
                        if lab not in enabled():
                            self.error = Divergence(f"step {self.pos}: outcome {lab} of {obj}.{method} is not enabled "
                                                    f"in the real state (enabled: {enabled()})")
                            self.abort = True
                            self.cv.notify_all()
                            raise _Abort()
                        del self.waiting[me]
                        return lab
                if not self.cv.wait(timeout=0.2) and time.time() > self.deadline:
                    self.abort = True
                    self.cv.notify_all()
                    raise _Abort()

    def done(self):
        with self.cv:
            self.log.append(self.trace[self.pos])
            self.pos += 1
            self.cv.notify_all()

    def finish(self, exc):
        with self.cv:
            self.finished[self.tname()] = exc
            self.cv.notify_all()

    def run(self, bodies):
        """bodies: {thread name: callable}. Returns when the trace is consumed and every live thread is
        either finished or parked on its next operation."""
        threads = []
        for name, fn in bodies.items():
            def target(fn=fn):
                try:
                    fn()
                    self.finish(None)
                except _Abort:
                    self.finish("aborted")
                except BaseException as e:  # noqa: recorded, compared with the model's failure flag
                    self.finish(e)
            t = threading.Thread(target=target, name=name, daemon=True)
            threads.append(t)
        for t in threads:
            t.start()
        with self.cv:
            while True:
                if self.error is not None:
                    break
                quiescent = all((n in self.waiting) or (n in self.finished) for n in bodies)
                if self.pos >= len(self.trace) and quiescent:
                    break
                if quiescent and self.pos < len(self.trace) and self.trace[self.pos]["thread"] in self.finished:
                    th = self.trace[self.pos]['thread']
                    self.error = Divergence(f"step {self.pos}: model schedules {th} ({self.trace[self.pos].get('label')}) "
                                            f"but that thread has finished in the real code with {self.finished[th]!r}")
                    break
                if time.time() > self.deadline:
                    self.error = Divergence(f"replay timed out at step {self.pos}")
                    break
                self.cv.wait(timeout=0.2)
            parked = {n: (o, m, en()) for n, (o, m, en) in self.waiting.items()}
            finished = dict(self.finished)
            self.abort = True
            self.cv.notify_all()
        return parked, finished


class TwinSemLock:
    """Python twin of prims.SemModel."""

    def __init__(self, sched, name, kind, value, maxvalue, procs, tids):
        self.s, self.name_, self.kind, self.v, self.maxvalue = sched, name, kind, value, maxvalue
        self.cnt, self.own = {}, {}
        self.procs, self.tids = procs, tids  # thread name -> proc / tid
        self.hooks = {}
        self.handle, self.name = 0, name
        self.interruptible, self.interrupted = set(), False

    def _p(self, who=None):
        return self.procs[who or self.s.tname()]

    def _mine(self, who=None):
        who = who or self.s.tname()
        p = self._p(who)
        return self.cnt.get(p, 0) != 0 and self.own.get(p) == self.tids[who]

    def _is_mine(self):
        return self._mine()

    def _count(self):
        return self.cnt.get(self._p(), 0)

    def _get_value(self):
        return self.v

    def _is_zero(self):
        return self.v == 0

    def acquire(self, block=True, timeout=None):
        who = self.s.tname()  # the enabledness of a parked request is also evaluated by the scheduler thread

        def enabled():
            out = []
            if self.kind == RECURSIVE_MUTEX and self._mine(who):
                return ["reenter"]
            if self.v > 0:
                out.append("ok")
            else:
                if block and who in self.interruptible and not self.interrupted:
                    out.append("interrupt")
                if not block:
                    out.append("wouldblock")
                elif timeout is not None:
                    out.append("timeout")
            return out
        lab = self.s.request(self.name_, "acquire", enabled)
        p = self._p()
        if lab == "reenter":
            self.cnt[p] = self.cnt.get(p, 0) + 1
            res = True
        elif lab == "ok":
            self.v -= 1
            self.cnt[p] = self.cnt.get(p, 0) + 1
            self.own[p] = self.tids[self.s.tname()]
            res = True
        elif lab == "interrupt":
            self.interrupted = True
            self.s.done()
            raise KeyboardInterrupt()
        else:
            res = False
        h = self.hooks.get(("acquire", lab))
        if h:
            h()
        self.s.done()
        return res

    def release(self):
        who = self.s.tname()

        def enabled():
            if self.kind == RECURSIVE_MUTEX:
                if not self._mine(who):
                    return ["notowner"]
                return ["inner"] if self.cnt[self._p(who)] > 1 else ["ok"]
            return ["toomany"] if self.v >= self.maxvalue else ["ok"]
        lab = self.s.request(self.name_, "release", enabled)
        p = self._p()
        try:
            if lab == "notowner":
                raise AssertionError("attempt to release recursive lock not owned by thread")
            if lab == "toomany":
                raise ValueError("semaphore or lock released too many times")
            self.cnt[p] = self.cnt.get(p, 0) - 1
            if lab == "ok":
                self.v += 1
            h = self.hooks.get(("release", lab))
            if h:
                h()
        finally:
            self.s.done()


class _SchedField:
    """Data descriptor: an instance attribute that the model treats as a shared field (auto-declared by
    Compiler.declare_auto_fields) is read and written through the baton scheduler, like in the model."""

    def __init__(self, sched, host, attr):
        self.sched, self.host, self.attr = sched, host, attr

    def __get__(self, obj, owner=None):
        if obj is None:
            return self
        self.sched.request(self.host, f"get:{self.attr}", lambda: ["read"])
        v = obj.__dict__.get("$" + self.attr, 0)
        self.sched.done()
        return v

    def __set__(self, obj, value):
        self.sched.request(self.host, f"set:{self.attr}", lambda: ["write"])
        obj.__dict__["$" + self.attr] = value
        self.sched.done()


def with_sched_fields(cls, sched, oname, comp):
    """Subclass of the real class whose auto-declared attributes of model object `oname` go through the scheduler."""
    attrs = comp.objects.get(oname, {}).get("attrs", {}) if comp is not None else {}
    auto = {a: v[1] for a, v in attrs.items() if isinstance(v, tuple) and v[0] == "field" and len(v) > 1 and v[1].endswith(".$auto")}
    if not auto:
        return cls
    return type(cls.__name__, (cls,), {a: _SchedField(sched, host, a) for a, host in auto.items()})


def build_real_condition(sched, names, lock_cls, procs, tids, W=4, comp=None):
    """Real loky objects around twin semlocks (mirrors mcond.build_condition)."""
    import loky.backend.synchronize as sy
    vmax = (1 << W) - 1

    def mk(cls, name, kind, value, maxvalue):
        o = cls.__new__(cls)
        o._semlock = TwinSemLock(sched, name + ".sl", kind, value, maxvalue, procs, tids)
        o._make_methods()
        return o
    if lock_cls == "RLock":
        lock = mk(sy.RLock, names["lock"], RECURSIVE_MUTEX, 1, 1)
    else:
        lock = mk(sy.Lock, names["lock"], SEMAPHORE, 1, 1)
    CondCls = with_sched_fields(sy.Condition, sched, "cond", comp)
    cond = CondCls.__new__(CondCls)
    cond._lock = lock
    cond._sleeping_count = mk(sy.Semaphore, names["sleeping"], SEMAPHORE, 0, vmax)
    cond._woken_count = mk(sy.Semaphore, names["woken"], SEMAPHORE, 0, vmax)
    cond._wait_semaphore = mk(sy.Semaphore, names["waitsem"], SEMAPHORE, 0, vmax)
    cond._make_methods()
    return cond
