"""M_cond: loky.backend.synchronize.Condition / Event translated from the current source."""
import ast
import time

import z3

from . import drivers_cond
from .bmc import BMC
from .front import ClassTable, Compiler, Node, ObjRef, Unsupported
from .model import BV, END, FAILED, Outcome, State, System, W
from .prims import RECURSIVE_MUTEX, SEMAPHORE, ObsModel, SemModel


def bound_attrs_from_make_methods(ct, cls):
    """Read `self.x = self.<attr>.<meth>` assignments of cls._make_methods from the AST."""
    fdef, _ = ct.method(cls, "_make_methods")
    out = {}
    if fdef is None:
        return out
    for s in fdef.body:
        ok = (isinstance(s, ast.Assign) and len(s.targets) == 1 and isinstance(s.targets[0], ast.Attribute)
              and isinstance(s.targets[0].value, ast.Name) and s.targets[0].value.id == "self"
              and isinstance(s.value, ast.Attribute) and isinstance(s.value.value, ast.Attribute)
              and isinstance(s.value.value.value, ast.Name) and s.value.value.value.id == "self")
        if not ok:
            raise Unsupported(f"{cls}._make_methods has an unexpected shape: {ast.unparse(s)}")
        out[s.targets[0].attr] = (s.value.value.attr, s.value.attr)
    return out


def ctor_args(ct, cls):
    """(kind, value, maxvalue) expressions from the constructor's SemLock.__init__/super().__init__ call."""
    fdef, _ = ct.method(cls, "__init__")
    for n in ast.walk(fdef):
        if isinstance(n, ast.Call) and isinstance(n.func, ast.Attribute) and n.func.attr == "__init__":
            args = [a for a in n.args if not (isinstance(a, ast.Name) and a.id == "self")]
            return [ast.unparse(a) for a in args[:3]]
    raise Unsupported(f"{cls}.__init__ does not call SemLock.__init__")


def make_semlock_obj(objects, ct, S, name, cls, nprocs, value=None):
    """Model object for a loky Lock/RLock/Semaphore instance named `name`."""
    kind_s, value_s, max_s = ctor_args(ct, cls)
    env = {"RECURSIVE_MUTEX": RECURSIVE_MUTEX, "SEMAPHORE": SEMAPHORE, "SEM_VALUE_MAX": (1 << W) - 1,
           "value": value}
    kind, val, mx = (eval(x, {}, env) for x in (kind_s, value_s, max_s))
    sl = f"{name}.sl"
    objects[sl] = {"model": SemModel(sl, kind, val, mx, nprocs, S)}
    attrs = {"_semlock": ObjRef(sl)}
    for a, (via, meth) in bound_attrs_from_make_methods(ct, cls).items():
        if via != "_semlock":
            raise Unsupported("SemLock._make_methods binds through " + via)
        attrs[a] = ("bound", sl, meth)
    objects[name] = {"cls": cls, "attrs": attrs}
    return objects[sl]["model"]


def build_condition(objects, ct, S, nprocs, lock_cls="RLock", prefix=""):
    import loky.backend.synchronize as sy
    # Condition.__init__: the four members and their classes, read from the AST
    fdef, _ = ct.method("Condition", "__init__")
    members = {}
    for s in fdef.body:
        if isinstance(s, ast.Assign) and isinstance(s.targets[0], ast.Attribute):
            members[s.targets[0].attr] = ast.unparse(s.value)
    want = {"_lock": "lock or RLock()", "_sleeping_count": "Semaphore(0)", "_woken_count": "Semaphore(0)",
            "_wait_semaphore": "Semaphore(0)"}
    if members != want:
        raise Unsupported(f"Condition.__init__ builds unexpected members: {members}")
    lock = make_semlock_obj(objects, ct, S, prefix + "lock", lock_cls, nprocs)
    sl = make_semlock_obj(objects, ct, S, prefix + "sleeping", "Semaphore", nprocs, value=0)
    wk = make_semlock_obj(objects, ct, S, prefix + "woken", "Semaphore", nprocs, value=0)
    ws = make_semlock_obj(objects, ct, S, prefix + "waitsem", "Semaphore", nprocs, value=0)
    attrs = {"_lock": ObjRef(prefix + "lock"), "_sleeping_count": ObjRef(prefix + "sleeping"),
             "_woken_count": ObjRef(prefix + "woken"), "_wait_semaphore": ObjRef(prefix + "waitsem")}
    for a, (via, meth) in bound_attrs_from_make_methods(ct, "Condition").items():
        target = attrs[via].name
        attrs[a] = objects[target]["attrs"][meth]
    objects[prefix + "cond"] = {"cls": "Condition", "attrs": attrs}
    return lock, sl, wk, ws


class CondScenario:
    """W waiters (one wait each, symbolic timeout flag), N notifier calls of symbolic kind, and
    optionally a final notify_all issued once every waiter has registered."""

    def __init__(self, waiters=2, notifiers=1, final="notify_all", lock_cls="RLock", reentrant=False,
                 same_process=True, fixed=None, interrupt=False):
        fixed = fixed or {}
        import loky.backend.synchronize as sy
        self.ct = ClassTable([sy, drivers_cond])
        self.S = State()
        self.objects = {}
        nthreads = waiters + notifiers + (1 if final else 0)
        nprocs = 1 if same_process else nthreads
        self.lock, self.sleeping, self.woken, self.waitsem = build_condition(self.objects, self.ct, self.S, nprocs, lock_cls)
        S = self.S
        self.obs = ObsModel(S)
        self.objects["obs"] = {"model": self.obs}
        self.waiter_tids = list(range(1, waiters + 1))
        for t in self.waiter_tids:
            S.declare(f"g.slept.{t}", "bool", False)
            S.declare(f"g.reg.{t}", "bool", False)
            S.declare(f"g.to.{t}", "bool", False)
            S.declare(f"g.ret.{t}", 2, 0)  # 0 not returned, 1 True, 2 False
            S.declare(f"in.timeout.{t}", "bool", None)
        S.declare("g.tokens", W, 0)
        S.declare("g.badlock", "bool", False)
        S.declare("g.notified", "bool", False)
        wt = set(self.waiter_tids)
        # reentrant: True = every waiter holds the RLock twice; "mixed" = only the first waiter does
        depth_of = {t: (2 if (reentrant is True or (reentrant == "mixed" and t == 1)) else 1) for t in self.waiter_tids}

        def on_sleep(t, S_, label):
            return {f"g.slept.{t.tid}": z3.BoolVal(True)} if t.tid in wt else {}

        def on_lock_release(t, S_, label):
            if t.tid in wt:
                return {f"g.reg.{t.tid}": z3.Or(S_[f"g.reg.{t.tid}"], S_[f"g.slept.{t.tid}"])}
            return {}

        def on_timeout(t, S_, label):
            return {f"g.to.{t.tid}": z3.BoolVal(True)} if t.tid in wt else {}

        def on_token(t, S_, label):
            return {"g.tokens": S_["g.tokens"] + 1}
        self.sleeping.hooks[("release", "ok")] = on_sleep
        self.lock.hooks[("release", "ok")] = on_lock_release
        self.waitsem.hooks[("acquire", "timeout")] = on_timeout
        self.waitsem.hooks[("release", "ok")] = on_token
        lockm = self.lock

        def wait_returned(args, kwargs, t, S_):
            r = args[0]
            vn, cn, on = lockm.names(t.proc)
            holds = z3.And(S_[cn] == BV(depth_of.get(t.tid, 1)), S_[on] == BV(t.tid))
            if lockm.kind == SEMAPHORE:
                holds = z3.And(S_[vn] == 0, S_[cn] != 0, S_[on] == BV(t.tid))
            rz = r if z3.is_expr(r) else z3.BoolVal(bool(r))
            return [Outcome(z3.BoolVal(True), {f"g.ret.{t.tid}": z3.If(rz, z3.BitVecVal(1, 2), z3.BitVecVal(2, 2)),
                                                "g.badlock": z3.Or(S_["g.badlock"], z3.Not(holds))}, None, None, "obs")]

        def await_all_registered(args, kwargs, t, S_):
            return [Outcome(z3.And(*[S_[f"g.reg.{w}"] for w in self.waiter_tids]), {}, None, None, "obs")]

        def notify_done(args, kwargs, t, S_):
            return [Outcome(z3.BoolVal(True), {"g.notified": z3.BoolVal(True)}, None, None, "obs")]
        def wait_interrupted(args, kwargs, t, S_):
            vn, cn, on = lockm.names(t.proc)
            holds = z3.And(S_[cn] == BV(depth_of.get(t.tid, 1)), S_[on] == BV(t.tid))
            if lockm.kind == SEMAPHORE:
                holds = z3.And(S_[vn] == 0, S_[cn] != 0, S_[on] == BV(t.tid))
            return [Outcome(z3.BoolVal(True), {f"g.ret.{t.tid}": z3.BitVecVal(3, 2),
                                                "g.badlock": z3.Or(S_["g.badlock"], z3.Not(holds))}, None, None, "obs")]
        self.obs.define("wait_interrupted", wait_interrupted, fused=True)
        if interrupt:
            self.waitsem.allow_interrupt(1)
        self.obs.define("wait_returned", wait_returned, fused=True)
        self.obs.define("await_all_registered", await_all_registered)
        self.obs.define("notify_done", notify_done, fused=True)
        self.comp = Compiler(self.ct, self.objects, opaque_calls=["util.debug"])
        self.comp.declare_auto_fields(S)
        self.comp.immutable = {f"in.timeout.{t}" for t in self.waiter_tids} | {f"in.all.{j}" for j in range(notifiers)}
        self.sys = System(self.objects, S)
        self.sys.local_types = {}
        for t in self.waiter_tids:
            self.sys.local_types[f"in.timeout.{t}"] = "bool"
        for i in range(waiters):
            fn = "waiter_reentrant" if depth_of[i + 1] == 2 else "waiter"
            if interrupt and i == 0:
                fn = "waiter_interruptible"
            nm = f"in.timeout.{i + 1}"
            arg = ("c", fixed[nm]) if nm in fixed else ("v", nm)
            entry = self.compile_fn(fn, [("o", "cond"), ("o", "obs"), arg])
            self.sys.add_thread(f"W{i + 1}", 0 if same_process else i, entry)
        self.kinds = []
        for j in range(notifiers):
            kv = f"in.all.{j}"
            S.declare(kv, "bool", None)
            self.sys.local_types[kv] = "bool"
            self.kinds.append(kv)
            entry = self.compile_fn("notifier", [("o", "cond"), ("o", "obs"), ("c", fixed[kv]) if kv in fixed else ("v", kv)])
            self.sys.add_thread(f"N{j + 1}", 0 if same_process else waiters + j, entry)
        if final:
            fname = "final_notify_all" if final == "notify_all" else "single_notify_when_registered"
            entry = self.compile_fn(fname, [("o", "cond"), ("o", "obs")])
            self.sys.add_thread("F", 0 if same_process else nthreads - 1, entry)
        self.sys._keep = {n for n in S.decl if n.startswith(("in.", "g."))}
        self.sys.build()
        # inputs keep their initial (symbolic) value: they are never written
        self.functions = sorted(self.comp.used_functions)

    def compile_fn(self, fname, args):
        fdef, _ = self.ct.funcs[fname]
        from .front import Ctx
        end = lambda r: Node("end", value=None, label="end")
        ctx = Ctx(self.comp, "top", {}, end, [], [], [])
        return self.comp.inline(fdef, args, {}, ctx, end, fname)

    # state predicates ---------------------------------------------------
    def all_ended(self):
        S = self.S
        return z3.And(*[S[t.pcvar] == z3.BitVecVal(END, 8) for t in self.sys.threads])

    def some_not_ended(self):
        return z3.Not(self.all_ended())


class EventScenario:
    """Event waiters (symbolic timeouts), setters, clearers and is_set probers."""

    def __init__(self, waiters=2, setters=1, clearers=0, probers=0, same_process=True, fixed=None):
        import loky.backend.synchronize as sy
        fixed = fixed or {}
        self.ct = ClassTable([sy, drivers_cond])
        self.S = S = State()
        self.objects = {}
        n = waiters + setters + clearers + probers
        nprocs = 1 if same_process else n
        fdef, _ = self.ct.method("Event", "__init__")
        members = {s.targets[0].attr: ast.unparse(s.value) for s in fdef.body
                   if isinstance(s, ast.Assign) and isinstance(s.targets[0], ast.Attribute)}
        if members != {"_cond": "Condition(Lock())", "_flag": "Semaphore(0)"}:
            raise Unsupported(f"Event.__init__ builds unexpected members: {members}")
        self.lock, self.sleeping, self.woken, self.waitsem = build_condition(self.objects, self.ct, S, nprocs, "Lock")
        self.flag = make_semlock_obj(self.objects, self.ct, S, "flag", "Semaphore", nprocs, value=0)
        self.objects["ev"] = {"cls": "Event", "attrs": {"_cond": ObjRef("cond"), "_flag": ObjRef("flag")}}
        self.obs = ObsModel(S)
        self.objects["obs"] = {"model": self.obs}
        S.declare("g.badret", "bool", False)
        S.declare("g.setdone", "bool", False)
        flagv = "flag.sl.v"

        def returned(args, kwargs, t, S_):
            r = args[0]
            rz = r if z3.is_expr(r) else z3.BoolVal(bool(r))
            # the caller held the condition's lock from its last look at the flag until this instant
            return [Outcome(z3.BoolVal(True), {"g.badret": z3.Or(S_["g.badret"], rz != (S_[flagv] == 1)),
                                                f"g.ret.{t.tid}": z3.If(rz, z3.BitVecVal(1, 2), z3.BitVecVal(2, 2))},
                            None, None, "obs")]

        def set_done(args, kwargs, t, S_):
            return [Outcome(z3.BoolVal(True), {"g.setdone": z3.BoolVal(True)}, None, None, "obs")]
        self.obs.define("event_wait_returned", returned, fused=True)
        self.obs.define("is_set_returned", returned, fused=True)
        self.obs.define("set_done", set_done, fused=True)
        self.comp = Compiler(self.ct, self.objects, opaque_calls=["util.debug"])
        self.comp.declare_auto_fields(S)
        self.sys = System(self.objects, S)
        self.waiter_tids, tid = [], 0
        plan = [("W", "event_waiter", waiters), ("S", "event_setter", setters), ("C", "event_clearer", clearers),
                ("P", "event_prober", probers)]
        for pre, fn, cnt in plan:
            for i in range(cnt):
                tid += 1
                S.declare(f"g.ret.{tid}", 2, 0)
                args = [("o", "ev"), ("o", "obs")]
                if pre == "W":
                    nm = f"in.timeout.{tid}"
                    S.declare(nm, "bool", None)
                    self.sys.local_types[nm] = "bool"
                    self.comp.immutable.add(nm)
                    self.waiter_tids.append(tid)
                    args.append(("c", fixed[nm]) if nm in fixed else ("v", nm))
                fdef, _ = self.ct.funcs[fn]
                from .front import Ctx
                end = lambda r: Node("end", value=None, label="end")
                ctx = Ctx(self.comp, "top", {}, end, [], [], [])
                entry = self.comp.inline(fdef, args, {}, ctx, end, fn)
                self.sys.add_thread(f"{pre}{i + 1}", 0 if same_process else tid - 1, entry)
        self.sys._keep = {n for n in S.decl if n.startswith(("in.", "g."))}
        self.sys.build()
        self.functions = sorted(self.comp.used_functions)

    def all_ended(self):
        return z3.And(*[self.S[t.pcvar] == z3.BitVecVal(END, 8) for t in self.sys.threads])

    def ended(self, prefix):
        return z3.And(*[self.S[t.pcvar] == z3.BitVecVal(END, 8) for t in self.sys.threads if t.name.startswith(prefix)])
