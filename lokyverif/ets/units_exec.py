"""Units for the executor slices (C01/C03/C04/C07...): bounded model checking of transition systems
compiled from the current source, from symbolic initial states constrained by a stated representation
invariant; every sat answer replayed on the real functions (replay_generic)."""
import hashlib
import inspect
import re
import time

import z3

from ..common import HELD, INCONCLUSIVE, VIOLATION, UnitResult, load_known, write_replay
from .bmc import BMC
from .front import Unsupported
from .model import END
from .replay_cond import Divergence
from .replay_generic import run_replay


def _shared(name):
    return not (re.match(r"^(f\d+|top)\.", name) or name.startswith("pc."))


def compare(sl, model_state, real_state, finished, threads):
    diffs = []
    for n, v in real_state.items():
        if _shared(n) and n not in ("fail", "failthread") and n in model_state:
            mv = model_state[n]
            if (bool(mv) != bool(v)) if isinstance(mv, bool) or isinstance(v, bool) else (mv != v):
                diffs.append(f"{n}: model={mv} real={v}")
    errors = {n: e for n, e in finished.items() if e not in (None, "aborted")}
    if (model_state["fail"] != 0) != bool(errors):
        diffs.append(f"failure: model fail={model_state['fail']} real exceptions={ {n: repr(e) for n, e in errors.items()} }")
    for t in threads:
        m_end = model_state[t.pcvar] == END
        r_end = finished.get(t.name, "x") is None
        if m_end != r_end and not errors:
            diffs.append(f"{t.name} ended: model={m_end} real={r_end}")
    return diffs, errors


def slice_unit(prop, name, builder, K, timeout_s=900, params=None):
    from . import slices
    t0 = time.time()
    res = UnitResult(name=name, engine="E-TS", status=INCONCLUSIVE, bounds=f"slice {builder}({params or {}}), K={K} fused steps")
    try:
        sl, spec = getattr(slices, builder)(**(params or {}))
        res.assumptions = list(spec.get("assumptions", []))
        res.functions = [f"loky:{f}@{_h(sl, f)}" for f in sl.functions]
        res.transitions = len(sl.sys.transitions) * K
        res.states = sum(len(t.locs) + 3 for t in sl.sys.threads) * (K + 1)
        b = BMC(sl.sys, K, timeout_s=timeout_s)
        b.init_extra = z3.And(spec["init"], *sl.S.domain)

        def replay(r):
            steps = [e for e in r.trace if not e.get("idle")]
            init_state = b.state_at(r.model, 0)
            real_state, finished, parked = run_replay(sl, init_state, steps)
            ms = b.state_at(r.model, len(steps))
            diffs, errors = compare(sl, ms, real_state, finished, sl.sys.threads)
            return steps, init_state, ms, diffs, errors

        known = [k for k in load_known() if prop in k.get("properties", []) and k.get("status") == "known"
                 and k.get("unit") == builder]
        known_preds = {k["id"]: spec["known"][k["predicate"]] for k in known if k.get("predicate") in spec.get("known", {})}
        excl = z3.Not(z3.Or(*known_preds.values())) if known_preds else z3.BoolVal(True)
        if "g.flag_written_unlocked" in sl.S.decl and spec.get("safety") is not None:
            spec["safety"] = dict(spec["safety"])
            spec["safety"]["C01/C02 an executor flag (shutdown / broken / kill_workers) is written while the shutdown lock is "
                           "free: submit() can read a half-published state"] = sl.S["g.flag_written_unlocked"]
        for kind in ("safety", "stuck"):
            table = spec.get(kind) or {}
            if not table:
                continue
            bad = z3.And(z3.Or(*table.values()), excl)
            seen, r, problem = [], None, None
            for attempt in range(4):
                # a counterexample whose replay diverges from the real code is never reported; the same query is
                # asked again without that schedule (up to 3 times) before the unit gives up as inconclusive
                r = b.safety(bad, seen) if kind == "safety" else b.stuck(bad, seen)
                res.queries += 1
                res.solver_s += r.seconds
                if r.verdict != "sat":
                    break
                try:
                    steps, init_state, ms, diffs, errors = replay(r)
                    problem = f"counterexample does not replay on the real code (model/translator error): {diffs[:4]}" if diffs else None
                except Divergence as e:
                    problem = f"replay diverged (model/translator error): {e}"
                if problem is None:
                    break
                seen.append(b.schedule(r.model))
            if r.verdict == "unsat" and not seen:
                res.discharged += 1
            elif r.verdict == "unsat":
                res.detail = problem + " (no other counterexample exists)"
                return _fin(res, t0)
            elif r.verdict == "sat":
                if problem is not None:
                    res.detail = problem
                    return _fin(res, t0)
                k = len(steps)
                which = [txt for txt, pred in table.items() if z3.is_true(r.model.eval(b.at(pred, k), model_completion=True))]
                res.status = VIOLATION
                res.counterexample = {"violated": which, "trace": [f"{e['thread']}:{e['label']}" for e in steps],
                                      "initial_state": {n: v for n, v in init_state.items() if _shared(n)},
                                      "real_exceptions": {n: repr(e) for n, e in errors.items()}}
                res.signature = f"{name}:{which}"
                res.replay = write_replay(prop, name, {"property": prop, "engine": "E-TS", "model": "M_exec", "builder": builder,
                                                       "params": params or {}, "init_state": init_state, "trace": steps,
                                                       "violated": which})
                res.detail = f"VIOLATED {which}; trace of {k} steps reproduced on the real code"
                return _fin(res, t0)
            else:
                res.detail = f"{kind} query {r.verdict} after {r.seconds:.0f}s"
                return _fin(res, t0)
            # the listed known findings: still there?
            for fid, pred in known_preds.items():
                kq = z3.And(z3.Or(*table.values()), pred)
                r = b.safety(kq) if kind == "safety" else b.stuck(kq)
                res.queries += 1
                res.solver_s += r.seconds
                if r.verdict == "sat":
                    steps, init_state, ms, diffs, errors = replay(r)
                    if diffs:
                        res.detail = f"known finding {fid}: trace does not replay: {diffs[:3]}"
                        return _fin(res, t0)
                    what = [k2["what"] for k2 in known if k2["id"] == fid][0]
                    line = f"{fid} {what}"
                    if line not in res.known:
                        res.known.append(line)
                    res.traces_validated += 1
                    res.discharged += 1
                elif r.verdict == "unsat":
                    res.discharged += 1
                else:
                    res.detail = f"known-finding query {r.verdict}"
                    return _fin(res, t0)
        # witness + unwinding
        r = b.reach(spec["witness"])
        res.queries += 1
        res.solver_s += r.seconds
        if r.verdict != "sat":
            res.detail = f"witness query {r.verdict}: slice vacuous or K too small"
            return _fin(res, t0)
        steps, init_state, ms, diffs, errors = replay(r)
        if diffs:
            res.detail = f"witness trace diverges between model and real code: {diffs[:4]}"
            return _fin(res, t0)
        res.discharged += 1
        res.traces_validated += 1
        res.witness_ok = True
        res.samples.append({"witness_trace": [f"{e['thread']}:{e['label']}" for e in steps]})
        any_enabled = z3.Or(*[tr.guard for tr in sl.sys.transitions])
        r = b.solve(lambda bb: bb.at(any_enabled, bb.K), [])
        res.queries += 1
        res.solver_s += r.seconds
        if r.verdict != "unsat":
            res.detail = f"unwinding check {r.verdict}: some run is longer than K={K}"
            return _fin(res, t0)
        res.discharged += 1
        res.status = HELD
        res.detail = (f"{len(sl.sys.transitions)} transitions, {len(sl.S.decl)} state vars, K={K}: "
                      f"{len(spec.get('safety') or {})} safety + {len(spec.get('stuck') or {})} stuck clauses unsat, "
                      f"witness sat+replayed, unwinding ok")
        return _fin(res, t0)
    except Unsupported as e:
        res.detail = f"unsupported construct in translated source: {e}"
        return _fin(res, t0)
    except Divergence as e:
        res.detail = f"replay diverged (model/translator error): {e}"
        return _fin(res, t0)


def _fin(res, t0):
    res.wall_s = time.time() - t0
    return res


def _h(sl, qual):
    import loky.backend.queues as lq
    import loky.backend.synchronize as sy
    for mod in (sl.pe, lq, sy):
        obj = mod
        try:
            for p in qual.split("."):
                obj = getattr(obj, p)
            return hashlib.sha256(inspect.getsource(obj).encode()).hexdigest()[:12]
        except AttributeError:
            continue
    return "?"


def replay_file(rp):
    from . import slices
    sl, spec = getattr(slices, rp["builder"])(**rp.get("params", {}))
    real_state, finished, parked = run_replay(sl, rp["init_state"], rp["trace"])
    print("exceptions:", {n: repr(e) for n, e in finished.items() if e not in (None, "aborted")})
    print("final shared state:", {n: v for n, v in real_state.items() if _shared(n)})
    return 0
