"""The executor slices: which real functions run in which threads, from which initial states,
and what is asserted."""
import z3

from .mexec import ExecSlice
from .model import BV, Outcome, W
from .prims_exec import (CANCELLED, CANCELLED_AND_NOTIFIED, FINISHED, PENDING, RUNNING, R_PICKLING, R_RUNTIME, bit,
                         popcount, zk)

T = z3.BoolVal(True)


def _refs_present(S, present=True):
    return [S[f"ex.{f}?"] == present for f in ("_executor_manager_thread", "_processes_management_lock",
                                               "_executor_manager_thread_wakeup", "_call_queue", "_result_queue")]


def x1_dispatch_vs_cancel(n=2):
    """Manager thread runs the real add_call_item_to_queue while a user thread cancels a future."""
    sl = ExecSlice(n_ids=n, n_workers=2, callq_cap=n)
    S = sl.S
    for i in range(n):
        S.declare(f"g.cancel_true.{i}", "bool", False)
    S.declare("in.which", W, None)

    def cancel_returned(args, kwargs, t, S_):
        f, r = args
        i = f[2]["i"]
        rz = r if z3.is_expr(r) else z3.BoolVal(bool(r))
        return [Outcome(T, {f"g.cancel_true.{j}": z3.Or(S_[f"g.cancel_true.{j}"], z3.And(zk(i) == BV(j), rz))
                            for j in range(n)}, None, None, "obs")]
    sl.obs.define("cancel_returned", cancel_returned, fused=True)
    sl.sys.local_types["in.which"] = "int"
    sl.comp.immutable.add("in.which")
    sl.thread("M", "manager_dispatch", [("o", "mt")])
    sl.thread("U", "user_cancel", [("rec", "Future", {"i": ("v", "in.which")}), ("o", "obs")])
    sl.finish()
    full = (1 << n) - 1
    init = z3.And(S["pending.m"] == full, S["running.m"] == 0, S["workids.head"] == 0, S["workids.tail"] == n,
                  z3.ULE(S["callq.free"], n), z3.ULT(S["in.which"], n), *_refs_present(S), S["wakeup.pipe.n"] == 0,
                  *[z3.Or(S[f"futures.st.{i}"] == PENDING, S[f"futures.st.{i}"] == CANCELLED) for i in range(n)])
    put = S["callq.put"]
    safety = {
        "C03 a task whose cancel() returned True was handed to the workers":
            z3.Or(*[z3.And(S[f"g.cancel_true.{i}"], bit(put, i, n)) for i in range(n)]),
        "C01 the manager thread died on an uncaught exception": S["fail"] != 0,
        "C03 a work id was dispatched twice": S["callq.dupput"],
    }
    stuck = {
        "C03 a dispatched item is not RUNNING / not in the running list, or a cancelled one is still pending":
            z3.And(sl.all_ended(), z3.Or(*[z3.Or(
                z3.And(bit(put, i, n), z3.Or(S[f"futures.st.{i}"] != RUNNING, z3.Not(bit(S["running.m"], i, n)))),
                z3.And(S[f"futures.st.{i}"] == CANCELLED_AND_NOTIFIED, bit(S["pending.m"], i, n))) for i in range(n)])),
        "C01 add_call_item_to_queue blocked": z3.Not(sl.all_ended()),
    }
    witness = z3.And(sl.all_ended(), put != 0, z3.Or(*[S[f"g.cancel_true.{i}"] for i in range(n)]))
    return sl, dict(init=init, safety=safety, stuck=stuck, witness=witness, assumptions=[
        f"initial state: {n} submitted work ids, each PENDING or already CANCELLED, FIFO id queue, 0..{n} free call-queue slots",
        "call queue = slot semaphore + feeder buffer (stdlib Queue.put/full); Future = concurrent.futures state machine"])


def _consistent(S, n):
    """Representation invariant of the work-id bookkeeping (a reachable-state over-approximation that
    every step re-establishes, see C03 step contracts): running ids are pending, dispatched futures are
    RUNNING, ids still queued are PENDING or CANCELLED, ids >= tail do not exist yet."""
    cons = [z3.ULE(S["workids.head"], S["workids.tail"]), z3.ULE(S["workids.tail"], BV(n)),
            S["futures.next"] == S["workids.tail"], S["ex._queue_count"] == S["workids.tail"]]
    for i in range(n):
        queued = z3.And(z3.ULE(S["workids.head"], BV(i)), z3.ULT(BV(i), S["workids.tail"]))
        exists = z3.ULT(BV(i), S["workids.tail"])
        inp, inr = bit(S["pending.m"], i, n), bit(S["running.m"], i, n)
        st = S[f"futures.st.{i}"]
        cons += [z3.Implies(inr, inp), z3.Implies(inp, exists), z3.Implies(queued, z3.And(inp, z3.Not(inr))),
                 z3.Implies(queued, z3.Or(st == PENDING, st == CANCELLED)),
                 z3.Implies(inr, st == RUNNING),
                 z3.Implies(z3.And(inp, z3.Not(queued), z3.Not(inr)), z3.BoolVal(False)),
                 z3.Implies(z3.Not(exists), z3.And(z3.Not(inp), z3.Not(inr))),
                 # ids that left the bookkeeping are resolved (result delivered) or were cancelled and dropped
                 z3.Implies(z3.And(exists, z3.Not(inp)), z3.Or(st == FINISHED, st == CANCELLED_AND_NOTIFIED)),
                 S[f"futures.sets.{i}"] == 0]
    return cons


def x2_feeder_error_vs_dispatch(n=2):
    """Manager thread dispatches (real add_call_item_to_queue) while the feeder thread's error path (real
    _SafeQueue._on_queue_feeder_error) handles an item that could not be pickled."""
    sl = ExecSlice(n_ids=n, n_workers=2, callq_cap=n + 1, wakeup_cap=2)
    S = sl.S
    S.declare("g.failed", W, 0)
    S.declare("in.big", "bool", None)
    sl.sys.local_types["in.big"] = "bool"
    sl.comp.immutable.add("in.big")
    sl.obs.define("the_error", lambda a, k, t, S_: [Outcome(T, {}, ("rec", "Err", {"big": S_["in.big"]}), None, "obs")],
                  ("rec", "Err", {"big": "bool"}), fused=True)
    cq = sl.objects["callq"]["model"]
    base = cq.outcomes

    def outcomes(method, args, kwargs, t, S_):
        outs = base(method, args, kwargs, t, S_)
        if method == "take_failed_item":
            for j, o in enumerate(outs):
                o.updates["g.failed"] = S_["g.failed"] | BV(1 << j)
        return outs
    cq.outcomes = outcomes
    sl.thread("M", "manager_dispatch", [("o", "mt")])
    sl.thread("F", "feeder_fail_one", [("o", "callq"), ("o", "obs")])
    sl.finish()
    full = (1 << n) - 1
    init = z3.And(S["pending.m"] == full, S["running.m"] == 0, S["workids.head"] == 0, S["workids.tail"] == n,
                  S["callq.free"] == n + 1, S["wakeup.pipe.n"] == 0, S["flags.shutdown"] == False, S["flags.broken?"] == False,
                  *_refs_present(S),
                  *[S[f"futures.st.{i}"] == PENDING for i in range(n)])
    failed, put = S["g.failed"], S["callq.put"]
    per = []
    for i in range(n):
        f_i, p_i = bit(failed, i, n), bit(put, i, n)
        st, res = S[f"futures.st.{i}"], S[f"futures.res.{i}"]
        per.append(z3.Or(
            # the failed task: gone from the bookkeeping, its own future failed once with PicklingError/RuntimeError
            z3.And(f_i, z3.Or(bit(S["pending.m"], i, n), bit(S["running.m"], i, n), st != FINISHED,
                              res != z3.If(S["in.big"], BV(R_RUNTIME), BV(R_PICKLING)),
                              S[f"futures.sets.{i}"] != 1)),
            # every other dispatched task is untouched
            z3.And(z3.Not(f_i), p_i, z3.Or(st != RUNNING, z3.Not(bit(S["pending.m"], i, n)), z3.Not(bit(S["running.m"], i, n))))))
    safety = {"C04 the feeder or manager thread died on an uncaught exception (pool left inconsistent)": S["fail"] != 0,
              "C04 the pool was flagged broken/shut down by a task-level failure": z3.Or(S["flags.shutdown"], S["flags.broken?"])}
    stuck = {"C04 after the error path: wrong outcome for the failed task or a sibling disturbed": z3.And(sl.all_ended(), z3.Or(*per)),
             "C04 the call-queue slot of the failed item was not given back":
                 z3.And(sl.all_ended(), S["callq.free"] + popcount(S["callq.buf"], n) != BV(n + 1)),
             "C04 the manager was not woken after the failure": z3.And(sl.all_ended(), failed != 0, S["wakeup.pipe.n"] == 0),
             "C01 a thread is blocked for ever": z3.Not(sl.all_ended())}
    witness = z3.And(sl.all_ended(), failed != 0, put == full)
    return sl, dict(init=init, safety=safety, stuck=stuck, witness=witness, assumptions=[
        f"initial state: {n} submitted PENDING work ids, empty call queue; one queued item fails to pickle (PicklingError or struct.error)",
        "Queue._feed itself (slot release before the callback) is checked in the C04 E-CH harness; here the callback races with dispatch"])


def _obs_basic(sl):
    S = sl.S
    S.declare("g.submitted", "bool", False)
    S.declare("g.rejected", "bool", False)
    S.declare("g.waited", "bool", False)
    S.declare("g.saw_shutdown", "bool", False)
    setf = lambda name: (lambda a, k, t, S_: [Outcome(T, {name: T}, None, None, "obs")])
    sl.obs.define("task", lambda a, k, t, S_: [Outcome(T, {}, None, None, "obs")], fused=True)
    sl.obs.define("submitted", setf("g.submitted"), fused=True)
    sl.obs.define("rejected", setf("g.rejected"), fused=True)
    sl.obs.define("waited", setf("g.waited"), fused=True)
    sl.obs.define("saw_shutdown", setf("g.saw_shutdown"), fused=True)


def x3_worker_exit_vs_submit(with_user=True, collected=False, nowait_shutdown=False, shutdown_thread=False):
    """The only worker of a max_workers=1 pool has announced its exit (idle time-out / memory-leak path). The
    manager thread processes the announcement (real process_result_item) while a user thread submits a task
    (real submit -> _ensure_executor_running -> _adjust_process_count)."""
    n = 2
    sl = ExecSlice(n_ids=n, n_workers=2, callq_cap=3, wakeup_cap=2)
    S = sl.S
    _obs_basic(sl)
    sl.thread("M", "manager_pid_message", [("o", "mt"), ("rec", "Msg", {"k": ("c", 1), "a": ("c", 0), "e": ("c", False), "?": ("c", True)})])
    if with_user:
        sl.thread("U", "user_submit", [("o", "ex"), ("o", "obs")])
    if shutdown_thread:
        # the user releases the executor with the real shutdown(wait=False) while the exit is being handled
        sl.thread("U2", "user_shutdown_nowait", [("o", "ex")])
    sl.thread("Wk", "leaving_worker", [("o", "ptable"), ("c", 0)])
    sl.finish()
    init = z3.And(*_consistent(S, n), S["workids.tail"] == S["workids.head"],  # nothing left undispatched: the worker was idle
                  z3.ULE(S["workids.tail"], 1),
                  S["processes.m"] == 1, S["ptable.alive"] == 1, S["ptable.started"] == 1, S["ptable.exitlock"] == 0,
                  S["ptable.next"] == 1, S["ex._max_workers"] == 1, S["mgmt.sl.v"] == 1, S["shutdown_lock.v"] == 1,
                  S["wakeup.pipe.n"] == 0, S["callq.free"] == 3, S["resq.pipe.n"] == 0,
                  S["flags.broken?"] == False, S["weakref.dead"] == collected,
                  S["flags.shutdown"] == nowait_shutdown,
                  # shutdown(wait=False) drops the references (and only shutdown does)
                  *_refs_present(S, not nowait_shutdown),
                  S["running.m"] == S["pending.m"])   # whatever is pending was dispatched (possibly still queued in the pipe)
    lost = z3.And(sl.all_ended(), S["pending.m"] != 0, S["processes.m"] == 0, z3.Not(S["flags.broken?"]))
    safety = {"C07/C01 the manager thread died while handling a clean worker exit": S["fail"] != 0,
              "C07 a clean time-out exit marked the pool broken": S["flags.broken?"],
              "C08 more workers registered than max_workers": z3.UGT(popcount(S["processes.m"], 2), S["ex._max_workers"]),
              "C08 a worker was spawned without the management lock": S["ptable.spawned_unlocked"]}
    stuck = {"C07 submitted work is pending but no worker is left and nobody will start one (lost task)": lost,
             "C07 a worker that left through the clean handshake is still registered: its sentinel will be taken for a "
             "crash and it counts towards max_workers (no replacement)":
                 z3.And(sl.all_ended(), S["fail"] == 0, (S["processes.m"] & ~S["ptable.alive"]) != 0),
             "C01 a thread is blocked for ever": z3.Not(sl.all_ended())}
    # F2 (known finding): executor collected, work pending, pool empty, nobody died: the specific stuck state
    known = {"F2": z3.And(S["weakref.dead"], S["pending.m"] != 0, S["processes.m"] == 0, S["fail"] == 0)}
    witness = z3.And(sl.all_ended(), S["g.submitted"], S["processes.m"] != 0) if with_user else sl.all_ended()
    return sl, dict(init=init, safety=safety, stuck=stuck, witness=witness, known=known, assumptions=[
        "initial state: max_workers=1, its only worker idle and past its exit announcement, 0..1 tasks dispatched before",
        "the leaving worker waits for its exit lock (30 s timeout = free transition) and then ends; process start/join are primitives",
        "starting the manager thread (_start_executor_manager_thread) is outside: the thread exists in every slice"])


def x4_wakeup_vs_submit():
    """The manager thread is in its wait (real wait_result_broken_or_wakeup) while a user thread submits
    (real submit). The wakeup pipe is bounded: a send into a full pipe blocks, holding the shutdown lock."""
    n = 2
    sl = ExecSlice(n_ids=n, n_workers=2, callq_cap=3, wakeup_cap=1)
    S = sl.S
    _obs_basic(sl)
    sl.thread("M", "manager_wait_once", [("o", "mt"), ("o", "obs")])
    sl.thread("U", "user_submit", [("o", "ex"), ("o", "obs")])
    sl.finish()
    init = z3.And(*_consistent(S, n), z3.ULE(S["workids.tail"], 1),
                  S["processes.m"] == 1, S["ptable.alive"] == 1, S["ptable.started"] == 1, S["ptable.exitlock"] == 0,
                  S["ptable.next"] == 1, S["ex._max_workers"] == 1, S["mgmt.sl.v"] == 1, S["shutdown_lock.v"] == 1,
                  z3.ULE(S["wakeup.pipe.n"], 1), S["callq.free"] == 3, S["resq.pipe.n"] == 0,
                  S["flags.broken?"] == False, S["weakref.dead"] == False, S["flags.shutdown"] == False,
                  *_refs_present(S))
    safety = {"C01 a management or user thread died on an uncaught exception": S["fail"] != 0,
              "C02 the pool was declared broken although no worker died": S["flags.broken?"]}
    stuck = {"C01 submit() and the manager thread block each other for ever (wakeup pipe full vs shutdown lock)":
                 z3.Not(sl.all_ended())}
    witness = z3.And(sl.all_ended(), S["g.submitted"], S["g.waited"])
    return sl, dict(init=init, safety=safety, stuck=stuck, witness=witness, assumptions=[
        "wakeup pipe capacity abstracted to 1 message (real: 64 KiB = 16384 empty messages): a blocked send models the full pipe",
        "initial state: healthy 1-worker pool, 0..1 wake-ups already in the pipe, nothing in the result pipe"])


def x5_shutdown_nowait_vs_wait():
    """shutdown(wait=False) (real) while the manager thread sits in its wait on an idle pool."""
    n = 2
    sl = ExecSlice(n_ids=n, n_workers=2, callq_cap=3, wakeup_cap=2)
    S = sl.S
    _obs_basic(sl)
    sl.thread("M", "manager_wait_once", [("o", "mt"), ("o", "obs")])
    sl.thread("U", "user_shutdown_nowait", [("o", "ex")])
    sl.finish()
    init = z3.And(*_consistent(S, n), S["workids.tail"] == 0, S["pending.m"] == 0,
                  S["processes.m"] == 1, S["ptable.alive"] == 1, S["ptable.started"] == 1, S["ptable.exitlock"] == 0,
                  S["ptable.next"] == 1, S["ex._max_workers"] == 1, S["mgmt.sl.v"] == 1, S["shutdown_lock.v"] == 1,
                  S["wakeup.pipe.n"] == 0, S["callq.free"] == 3, S["resq.pipe.n"] == 0,
                  S["flags.broken?"] == False, S["weakref.dead"] == False, S["flags.shutdown"] == False,
                  *_refs_present(S))
    M = [t for t in sl.sys.threads if t.name == "M"][0]
    U = [t for t in sl.sys.threads if t.name == "U"][0]
    from .model import END
    safety = {"C05 a thread died on an uncaught exception during shutdown(wait=False)": S["fail"] != 0,
              "C05 graceful shutdown flagged the pool broken": S["flags.broken?"]}
    stuck = {"C05 shutdown(wait=False) returned but the manager thread never learns about it (idle pool: it stays in wait() for ever)":
                 z3.And(S[U.pcvar] == z3.BitVecVal(END, 8), S[M.pcvar] != z3.BitVecVal(END, 8)),
             "C05 the manager woke up but does not see the shutdown request":
                 z3.And(sl.all_ended(), z3.Not(S["g.saw_shutdown"])),
             "C01 shutdown(wait=False) itself blocked": S[U.pcvar] != z3.BitVecVal(END, 8)}
    witness = z3.And(sl.all_ended(), S["g.saw_shutdown"])
    return sl, dict(init=init, safety=safety, stuck=stuck, witness=witness, assumptions=[
        "initial state: idle healthy pool (nothing pending, nothing in the pipes), executor object alive"])


def x6_terminate_broken(n=2, with_user=False):
    """The manager thread handles a broken pool (real terminate_broken -> kill_workers -> join_executor_internals)
    from a state in which some submitted futures may already have been cancelled by the user."""
    sl = ExecSlice(n_ids=n, n_workers=2, callq_cap=3, wakeup_cap=2)
    S = sl.S
    _obs_basic(sl)
    sl.obs.define("the_bpe", lambda a, k, t, S_: [Outcome(T, {}, ("rec", "Exc", {"t": BV(5), "?": T}), None, "obs")],
                  ("rec", "Exc", {"t": "int", "?": "bool"}), fused=True)
    sl.thread("M", "manager_terminate", [("o", "mt"), ("o", "obs")])
    if with_user:
        # a user thread submits (real submit) while the pool is being declared broken
        sl.thread("U", "user_submit", [("o", "ex"), ("o", "obs")])
    sl.finish()
    init = z3.And(*_consistent(S, n), S["pending.m"] != 0, *([z3.ULE(S["workids.tail"], n - 1), S["ptable.next"] == 2, S["processes.m"] == 3] if with_user else []),
                  S["ptable.alive"] == S["processes.m"], S["ptable.started"] == S["processes.m"], S["ptable.exitlock"] == 0,
                  S["ex._max_workers"] == 2, S["mgmt.sl.v"] == 1, S["shutdown_lock.v"] == 1,
                  z3.ULE(S["wakeup.pipe.n"], 1), z3.ULE(S["callq.free"], 3), S["resq.pipe.n"] == 0,
                  S["flags.broken?"] == False, S["flags.shutdown"] == False, *_refs_present(S))
    pend0 = [bit(S["pending.m"], i, n) for i in range(n)]
    safety = {"C02 the manager thread died while failing the pending futures (pool never flagged, others left pending)": S["fail"] != 0}
    from .prims_exec import R_TERMINATED
    undone = z3.Or(*[z3.And(S[f"futures.st.{i}"] != FINISHED, S[f"futures.st.{i}"] != CANCELLED,
                            S[f"futures.st.{i}"] != CANCELLED_AND_NOTIFIED, z3.ULT(BV(i), S["workids.tail"])) for i in range(n)])
    stuck = {"C02 after terminate_broken some future is still unresolved": z3.And(sl.all_ended(), undone),
             "C02 after terminate_broken the pool is not flagged broken or workers are still registered":
                 z3.And(sl.all_ended(), z3.Or(z3.Not(S["flags.broken?"]), S["processes.m"] != 0, S["pending.m"] != 0)),
             "C01 terminate_broken blocks for ever": z3.Not(sl.all_ended())}
    # C20: once terminate_broken has returned, the executor-owned resources are released
    stuck["C20 after terminate_broken a queue / the wakeup pipe is still open or a started worker was not joined"] = \
        z3.And(sl.all_ended(), S["fail"] == 0,
               z3.Or(z3.Not(S["callq.closed"]), z3.Not(S["wakeup._closed"]), z3.Not(S["wakeup.pipe.closed"]),
                     (S["ptable.started"] & ~S["ptable.joined"]) != 0, S["ptable.alive"] != 0,
                     S["shutdown_lock.v"] != 1, S["mgmt.sl.v"] != 1))
    stuck["C20 after the workers were killed the parent keeps the reading end of the call queue open: a feeder "
          "thread blocked on a task larger than the pipe buffer never ends (F8)"] = \
        z3.And(sl.all_ended(), S["fail"] == 0, z3.Not(S["callq.r.closed"]))
    if with_user:
        # every future that submit() handed out is resolved once the manager is done, or submit() raised
        stuck["C01/C02 a future accepted by submit() while the pool broke is never resolved"] = z3.And(sl.all_ended(), undone)
    known = {}
    witness = z3.And(sl.all_ended(), S["g.rejected"]) if with_user else sl.all_ended()
    return sl, dict(init=init, safety=safety, stuck=stuck, witness=witness, known=known, assumptions=[
        f"initial state: {n} work ids in any consistent bookkeeping state (queued ones PENDING or user-CANCELLED), 0..2 live workers",
        "kill_process_tree = kill + join (its tree walk is C06); the back-off loop of shutdown_workers is not entered (no live worker left)"])


def x10_crash_after_respawn(live0=0):
    """Some workers of the pool have left on their idle time-out (live0 of live0+1 remain). A user thread submits
    (real submit -> _ensure_executor_running -> _adjust_process_count spawns the missing worker); that new worker is
    killed at an arbitrary later instant; the manager thread sits in its real wait_result_broken_or_wakeup loop."""
    n = 2
    sl = ExecSlice(n_ids=n, n_workers=2, callq_cap=3, wakeup_cap=2)
    S = sl.S
    _obs_basic(sl)
    sl.thread("M", "manager_watch", [("o", "mt"), ("o", "obs")])
    sl.thread("U", "user_submit", [("o", "ex"), ("o", "obs")])
    sl.thread("X", "crashing_worker", [("o", "ptable"), ("c", live0)])
    sl.finish()
    m0 = (1 << live0) - 1
    init = z3.And(*_consistent(S, n), z3.ULE(S["workids.tail"], 1),
                  S["processes.m"] == m0, S["ptable.alive"] == m0, S["ptable.started"] == m0, S["ptable.exitlock"] == 0,
                  S["ptable.next"] == live0, S["ex._max_workers"] == live0 + 1, S["mgmt.sl.v"] == 1, S["shutdown_lock.v"] == 1,
                  z3.ULE(S["wakeup.pipe.n"], 1), S["callq.free"] == 3, S["resq.pipe.n"] == 0,
                  S["flags.broken?"] == False, S["weakref.dead"] == False, S["flags.shutdown"] == False,
                  *_refs_present(S))
    M = [t for t in sl.sys.threads if t.name == "M"][0]
    U = [t for t in sl.sys.threads if t.name == "U"][0]
    X = [t for t in sl.sys.threads if t.name == "X"][0]
    from .model import END
    ended = lambda t: S[t.pcvar] == z3.BitVecVal(END, 8)
    safety = {"C01 a management or user thread died on an uncaught exception": S["fail"] != 0}
    stuck = {"C02 a worker spawned by submit() died but the manager thread waits on a stale set of sentinels: the death is "
             "never detected, the future stays pending for ever": z3.And(ended(U), ended(X), z3.Not(ended(M))),
             "C01 submit() blocks for ever": z3.Not(ended(U))}
    witness = z3.And(sl.all_ended(), S["g.submitted"], S["g.waited"])
    return sl, dict(init=init, safety=safety, stuck=stuck, witness=witness, assumptions=[
        f"initial state: {live0} of {live0 + 1} workers left (the others timed out), 0..1 wake-ups already in the pipe, no result in flight",
        "the manager thread's loop is reduced to its wait (dispatch and result handling are slices x1, x2, x3); no other "
        "event (another submit, an idle time-out of a sibling) wakes it later"])


def x11_crash_holding_mgmt_lock(n=2):
    """A worker was SIGKILLed inside the idle-time-out branch of _process_worker, between its non-blocking acquire
    of the cross-process processes_management_lock and the release: the lock stays taken by a dead process. The
    manager thread runs the real wait_result_broken_or_wakeup and, if it reports a broken pool, terminate_broken."""
    sl = ExecSlice(n_ids=n, n_workers=2, callq_cap=3, wakeup_cap=2)
    S = sl.S
    _obs_basic(sl)
    sl.thread("M", "manager_detect", [("o", "mt"), ("o", "obs")])
    sl.finish()
    S.decl["mgmt.sl.v"] = (S.decl["mgmt.sl.v"][0], None)   # the initial value of the lock is part of the scenario
    init = z3.And(*_consistent(S, n), S["pending.m"] != 0,
                  S["processes.m"] == 3, S["ptable.alive"] == 2, S["ptable.started"] == 3, S["ptable.exitlock"] == 0,
                  S["ptable.next"] == 2, S["ex._max_workers"] == 2,
                  S["mgmt.sl.v"] == 0, S["mgmt.sl.cnt.0"] == 0,       # taken, but not by the parent
                  S["shutdown_lock.v"] == 1, S["wakeup.pipe.n"] == 0, z3.ULE(S["callq.free"], 3), S["resq.pipe.n"] == 0,
                  S["flags.broken?"] == False, S["flags.shutdown"] == False, S["weakref.dead"] == False,
                  *_refs_present(S))
    undone = z3.Or(*[z3.And(S[f"futures.st.{i}"] != FINISHED, S[f"futures.st.{i}"] != CANCELLED,
                            S[f"futures.st.{i}"] != CANCELLED_AND_NOTIFIED, z3.ULT(BV(i), S["workids.tail"])) for i in range(n)])
    reacted = z3.And(S["flags.broken?"], z3.Not(undone), S["processes.m"] == 0, S["ptable.alive"] == 0)
    safety = {"C02 the manager thread died while handling the death": S["fail"] != 0}
    stuck = {"C02 a worker died (holding the processes management lock) and the manager thread never declares the pool "
             "broken / fails the futures / kills the other workers": z3.And(z3.Not(sl.all_ended()), z3.Not(reacted)),
             "C01 the manager thread blocks for ever after having handled the death": z3.And(z3.Not(sl.all_ended()), reacted)}
    # F10 (known finding): everything was failed and killed, then shutdown_workers() waits for the dead worker's lock
    known = {"F10": z3.And(reacted, S["mgmt.sl.v"] == 0, S["mgmt.sl.cnt.0"] == 0, S["fail"] == 0)}
    witness = z3.And(S["g.waited"], reacted)
    return sl, dict(init=init, safety=safety, stuck=stuck, witness=witness, known=known, no_unwinding_end=True, assumptions=[
        f"initial state: 2 registered workers, worker 0 dead and owner of the management lock, {n} work ids in any consistent state",
        "the window in the worker is two statements wide (acquire(block=False); release()); SIGKILL there is a crash point "
        "the property quantifies over"])


def x7_reusable_race():
    """Two threads call the real get_reusable_executor concurrently (same or different arguments), from an
    arbitrary singleton state satisfying the factory's invariant."""
    from .slice_reusable import NEX, ReusableSlice
    sl = ReusableSlice(2)
    S = sl.S
    for j in range(2):
        sl.thread(f"T{j + 1}", "reuser", [("o", "RX"), ("o", "obs"), ("v", f"in.mw.{j}"), ("v", f"in.cfg.{j}")])
    sl.finish()
    has = S["rxg._executor#?"]
    init = z3.And(
        S["rxlock.v"] == 1, S["rxlock.cnt.0"] == 0,
        *[z3.And(z3.UGE(S[f"in.mw.{j}"], 1), z3.ULE(S[f"in.mw.{j}"], 3), z3.ULE(S[f"in.cfg.{j}"], 1)) for j in range(2)],
        z3.ULE(S["et.next"], 1), has == (S["et.next"] == 1), S["rxg._executor_kwargs#?"] == has,
        z3.Implies(has, z3.And(S["rxg._executor#i"] == 0, S["rxg._executor_kwargs"] == S["et.kw.0"],
                               z3.UGE(S["et.mw.0"], 1), z3.ULE(S["et.mw.0"], 3), z3.ULE(S["et.kw.0"], 1),
                               z3.ULE(S["et.live"], 1), z3.ULE(S["et.broken"], 1),
                               z3.UGT(S["rxg._next_executor_id"], S["et.id.0"]))),
        z3.Implies(z3.Not(has), z3.And(S["et.live"] == 0, S["et.broken"] == 0)),
        z3.ULE(S["rxg._next_executor_id"], 3), S["g.maxid"] == S["rxg._next_executor_id"],
        z3.Implies(z3.Not(has), S["rxg._next_executor_id"] == 0) if False else z3.BoolVal(True))
    cur_live = z3.Or(*[z3.And(S["rxg._executor#i"] == i, bit(S["et.live"], i, NEX), z3.Not(bit(S["et.broken"], i, NEX)))
                       for i in range(NEX)])
    same_args = z3.And(S["in.mw.0"] == S["in.mw.1"], S["in.cfg.0"] == S["in.cfg.1"])
    safety = {
        "C09 the factory failed (exception, lock misuse or unexpected recursion)": S["fail"] != 0,
        "C09 a fresh executor was built while the previous instance was still alive (two live singletons)": S["g.two_live"],
        "C09 executor ids are not strictly increasing": S["g.id_not_increasing"],
        "C09 the previous instance was not shut down with wait=True": S["g.shutdown_not_waited"],
        "C09 an executor was constructed outside the factory lock": S["g.created_unlocked"],
    }
    stuck = {
        "C09 racing callers block each other for ever": z3.Not(sl.all_ended()),
        "C09 after both calls the registered singleton is not a live executor": z3.And(sl.all_ended(), z3.Not(z3.And(S["rxg._executor#?"], cur_live))),
        "C09 two callers with the same arguments hold different executors": z3.And(sl.all_ended(), same_args, S["g.got.0#i"] != S["g.got.1#i"]),
    }
    witness = z3.And(sl.all_ended(), S["g.got.0"], S["g.got.1"])
    return sl, dict(init=init, safety=safety, stuck=stuck, witness=witness, assumptions=[
        "executor constructor / shutdown(wait=True) / _resize are primitives here (decided in C05/C06/C10); <= 3 executor objects",
        "initial singleton state: absent, or one instance (healthy, broken or shut down) built with arbitrary arguments; ids consistent",
        "arguments: max_workers 1..3, one configuration parameter (timeout) with 2 values, reuse='auto', kill_workers=False"])


def x8_manager_drain(n=1, dispatched=False):
    """Graceful shutdown drains: the manager thread's real run() loop (dispatch, wait, result processing,
    shutdown detection, join_executor_internals) with one environment worker, after shutdown(wait=True)
    has flagged the executor and woken the manager, with `n` tasks submitted but not yet dispatched."""
    from .prims_exec import R_VALUE, R_TASKEXC
    sl = ExecSlice(n_ids=max(n, 2), n_workers=2, callq_cap=3, wakeup_cap=2)
    S = sl.S
    _obs_basic(sl)
    sl.thread("M", "manager_run", [("o", "mt")])
    if dispatched:
        sl.thread("W0", "env_worker_holding", [("o", "callq"), ("o", "resq.w"), ("o", "ptable"), ("c", 0),
                                               ("rec", "CallItem", {"i": ("c", 0), "?": ("c", True)})])
    else:
        sl.thread("W0", "env_worker", [("o", "callq"), ("o", "resq.w"), ("o", "ptable"), ("c", 0)])
    sl.finish()
    N = max(n, 2)
    first = 1 if dispatched else 0  # id 0 is already in the worker's hands
    init = z3.And(*_consistent(S, N), S["workids.head"] == first, S["workids.tail"] == n, S["pending.m"] == (1 << n) - 1,
                  S["running.m"] == first, S["callq.buf"] == 0,
                  *[S[f"futures.st.{i}"] == (RUNNING if (dispatched and i == 0) else PENDING) for i in range(n)],
                  S["processes.m"] == 1, S["ptable.alive"] == 1, S["ptable.started"] == 1, S["ptable.exitlock"] == 0,
                  S["ptable.next"] == 1, S["ex._max_workers"] == 1, S["mgmt.sl.v"] == 1, S["shutdown_lock.v"] == 1,
                  S["wakeup.pipe.n"] == 1, S["callq.free"] == 3, S["resq.pipe.n"] == 0,
                  S["flags.broken?"] == False, S["weakref.dead"] == False, S["flags.shutdown"] == True,
                  S["flags.kill_workers"] == False, *_refs_present(S))
    resolved = z3.And(*[z3.And(S[f"futures.st.{i}"] == FINISHED,
                               z3.Or(S[f"futures.res.{i}"] == R_VALUE, S[f"futures.res.{i}"] == R_TASKEXC),
                               S[f"futures.sets.{i}"] == 1) for i in range(n)])
    safety = {"C05 the manager thread died during a graceful shutdown": S["fail"] != 0,
              "C05 graceful shutdown flagged the pool broken": S["flags.broken?"],
              "C03 a work id was dispatched twice": S["callq.dupput"]}
    stuck = {"C05 graceful shutdown never completes (manager or worker blocked for ever)": z3.Not(sl.all_ended()),
             "C05 a task submitted before the shutdown did not deliver its own outcome exactly once": z3.And(sl.all_ended(), z3.Not(resolved)),
             "C05/C20 after the shutdown a worker is still registered/unjoined or a queue is still open":
                 z3.And(sl.all_ended(), z3.Or(S["processes.m"] != 0, S["ptable.alive"] != 0, (S["ptable.started"] & ~S["ptable.joined"]) != 0,
                                              z3.Not(S["callq.closed"]), z3.Not(S["wakeup._closed"]), S["pending.m"] != 0,
                                              S["running.m"] != 0))}
    witness = z3.And(sl.all_ended(), resolved)
    return sl, dict(init=init, safety=safety, stuck=stuck, witness=witness, assumptions=[
        f"initial state: healthy 1-worker pool, {n} task(s) submitted and not yet dispatched, shutdown(wait=True) already flagged the executor and sent its wake-up",
        "the worker is an environment process: takes items in order, answers each with a value or an exception, on a sentinel announces its pid, takes its exit lock and ends",
        "result messages are whole (no partial sends: finding F5 is outside)"])


def x9_tracker_race():
    """Two threads call the real ResourceTracker.ensure_running concurrently after the tracker may have died."""
    from .slice_tracker import NT, TrackerSlice
    sl = TrackerSlice(2)
    S = sl.S
    for j in range(2):
        sl.thread(f"T{j + 1}", "tracker_user", [("o", "rt"), ("o", "obs")])
    sl.finish()
    init = z3.And(S["rtlock.v"] == 1, S["rtlock.cnt.0"] == 0,
                  # one tracker was started earlier (fd 1, pid 1); it is alive or has been killed since
                  S["tk.next"] == 1, z3.ULE(S["tk.alive"], 1), S["tk.wopen"] == 1,
                  S["rt._fd?"] == True, S["rt._fd"] == 1, S["rt._pid?"] == True, S["rt._pid"] == 1)
    S.declare("g.was_dead", "bool", None)
    was_dead0 = S["g.was_dead"]
    init = z3.And(init, was_dead0 == z3.Not(bit(S["tk.alive"], 0, NT)))
    safety = {"C12 a thread died inside ensure_running": z3.And(S["fail"] != 0, z3.Not(S["in.spawn_fails"])),
              "C12 the pipe of a live tracker was closed (it runs its end-of-life cleanup while its clients are alive)": S["g.closed_live"],
              "C12/C20 a descriptor was closed twice": S["g.double_close"],
              "C12 ensure_running returned although no live tracker is designated": S["g.bad_return"],
              "C12 more than one tracker was started for one death (or one although the old one was alive)":
                  z3.UGT(S["tk.spawned"], z3.If(was_dead0, BV(1), BV(0)))}
    stuck = {"C12 ensure_running blocks for ever (e.g. reaping a tracker that is alive)": z3.And(z3.Not(sl.all_ended()), z3.Not(S["in.spawn_fails"])),
             "C12/C20 a pipe end other than the current tracker's write end is left open":
                 z3.And(sl.all_ended(), z3.Not(S["in.spawn_fails"]),
                        z3.Or(S["tk.ropen"] != 0, S["tk.wopen"] != z3.If(S["tk.next"] == 2, BV(2), BV(1))))}
    witness = z3.And(sl.all_ended(), S["g.ensured"] == 2, S["tk.spawned"] == 1)
    return sl, dict(init=init, safety=safety, stuck=stuck, witness=witness, assumptions=[
        "kernel model: pipes, tracker processes (alive until the last write end is closed or killed), waitpid blocks on a live child; _check_alive = 'the tracker reading self._fd is alive'",
        "initial state: one tracker started earlier, alive or killed; the spawn succeeds or raises (symbolic)"])
