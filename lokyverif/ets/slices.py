"""The executor slices: which real functions run in which threads, from which initial states,
and what is asserted."""
import z3

from .mexec import ExecSlice
from .model import BV, Outcome, W
from .prims_exec import (CANCELLED, CANCELLED_AND_NOTIFIED, FINISHED, PENDING, RUNNING, R_PICKLING, R_RUNTIME, bit,
                         popcount, zk)

T = z3.BoolVal(True)


def x1_dispatch_vs_cancel(n=2):
    """Manager thread runs the real add_call_item_to_queue while a user thread cancels a future."""
    sl = ExecSlice(n_ids=n, n_workers=2, callq_cap=n)
    S = sl.S
    for i in range(n):
        S.declare(f"g.cancel_true.{i}", "bool", False)
    S.declare("in.which", W, None)

    def cancel_returned(args, kwargs, t, S_):
        f, r = args
        i = f[2]["i"]
        rz = r if z3.is_expr(r) else z3.BoolVal(bool(r))
        return [Outcome(T, {f"g.cancel_true.{j}": z3.Or(S_[f"g.cancel_true.{j}"], z3.And(zk(i) == BV(j), rz))
                            for j in range(n)}, None, None, "obs")]
    sl.obs.define("cancel_returned", cancel_returned, fused=True)
    sl.sys.local_types["in.which"] = "int"
    sl.comp.immutable.add("in.which")
    sl.thread("M", "manager_dispatch", [("o", "mt")])
    sl.thread("U", "user_cancel", [("rec", "Future", {"i": ("v", "in.which")}), ("o", "obs")])
    sl.finish()
    full = (1 << n) - 1
    init = z3.And(S["pending.m"] == full, S["running.m"] == 0, S["workids.head"] == 0, S["workids.tail"] == n,
                  z3.ULE(S["callq.free"], n), z3.ULT(S["in.which"], n),
                  *[z3.Or(S[f"futures.st.{i}"] == PENDING, S[f"futures.st.{i}"] == CANCELLED) for i in range(n)])
    put = S["callq.put"]
    safety = {
        "C03 a task whose cancel() returned True was handed to the workers":
            z3.Or(*[z3.And(S[f"g.cancel_true.{i}"], bit(put, i, n)) for i in range(n)]),
        "C01 the manager thread died on an uncaught exception": S["fail"] != 0,
        "C03 a work id was dispatched twice": S["callq.dupput"],
    }
    stuck = {
        "C03 a dispatched item is not RUNNING / not in the running list, or a cancelled one is still pending":
            z3.And(sl.all_ended(), z3.Or(*[z3.Or(
                z3.And(bit(put, i, n), z3.Or(S[f"futures.st.{i}"] != RUNNING, z3.Not(bit(S["running.m"], i, n)))),
                z3.And(S[f"futures.st.{i}"] == CANCELLED_AND_NOTIFIED, bit(S["pending.m"], i, n))) for i in range(n)])),
        "C01 add_call_item_to_queue blocked": z3.Not(sl.all_ended()),
    }
    witness = z3.And(sl.all_ended(), put != 0, z3.Or(*[S[f"g.cancel_true.{i}"] for i in range(n)]))
    return sl, dict(init=init, safety=safety, stuck=stuck, witness=witness, assumptions=[
        f"initial state: {n} submitted work ids, each PENDING or already CANCELLED, FIFO id queue, 0..{n} free call-queue slots",
        "call queue = slot semaphore + feeder buffer (stdlib Queue.put/full); Future = concurrent.futures state machine"])
