"""E-TS back end: bounded model checking of a System with z3 (bit-vector state).

Encoding (see DESIGN.md section 1 and the measured lessons): K unrolled steps; one
Boolean fire[k][i] per transition and step; exactly one of them or idle[k];
idle[k] only when no transition is enabled (a stuck state), and then the state is
frozen; sound peephole partial-order reduction between statically independent
transitions of different threads (visible variables of the queried predicate make
their writers mutually dependent).
"""
import time

import z3

from .model import collect_consts


class Result:
    def __init__(self, verdict, seconds, trace=None, model=None, k=None):
        self.verdict, self.seconds, self.trace, self.model, self.k = verdict, seconds, trace, model, k


class BMC:
    def __init__(self, system, K, por=True, timeout_s=600, choice="pb"):
        # choice: how "exactly one transition or idle per step" is encoded:
        #  "pb"     one Boolean per transition + pseudo-Boolean equality (fastest with z3)
        #  "ladder" one Boolean per transition + sequential at-most-one (plain SMT-LIB, for other solvers)
        #  "sel"    one bit-vector selector per step
        self.sys, self.K, self.por, self.timeout_s, self.choice = system, K, por, timeout_s, choice
        self.S = system.S
        self.names = list(self.S.decl)
        self.T = system.transitions
        self.queries = 0
        self.solver_s = 0.0
        self._unrolled = None
        self.init_extra = None  # constraint on the (symbolic) initial state: the slice's representation invariant

    # ------------------------------------------------------------------ unrolling
    def var(self, name, k):
        sort, _ = self.S.decl[name]
        return z3.Bool(f"{name}@{k}") if sort == "bool" else z3.BitVec(f"{name}@{k}", sort)

    def at(self, expr, k):
        if not z3.is_expr(expr):
            return expr
        return z3.substitute(expr, self.subs[k])

    def unroll(self, visible=frozenset(), init_extra=None):
        """Constraints for K steps. The one-step relation is built once over placeholder constants and
        instantiated per step with a single substitution (the Python-level cost of z3.substitute on
        thousands of small terms dominated otherwise)."""
        K, T = self.K, self.T
        if self._unrolled is None:
            self.vars = [{n: self.var(n, k) for n in self.names} for k in range(K + 1)]
            self.subs = [[(self.S.pre[n], self.vars[k][n]) for n in self.names] for k in range(K + 1)]
            # the scheduling choice of step k is one bit-vector: value i < |T| fires transition i,
            # value |T| is the idle step (exactly-one is implicit, and the encoding stays plain QF_BV)
            sw = max(1, len(T).bit_length())
            if self.choice == "sel":
                self.sel = [z3.BitVec(f"sel@{k}", sw) for k in range(K)]
                self.fire = [[self.sel[k] == z3.BitVecVal(i, sw) for i in range(len(T))] for k in range(K)]
                self.idle = [self.sel[k] == z3.BitVecVal(len(T), sw) for k in range(K)]
            else:
                self.fire = [[z3.Bool(f"fire@{k}@{i}") for i in range(len(T))] for k in range(K)]
                self.idle = [z3.Bool(f"idle@{k}") for k in range(K)]
            post = {n: self.var(n, "post") for n in self.names}
            if self.choice == "sel":
                selp, selnp = z3.BitVec("sel!", sw), z3.BitVec("selnext!", sw)
                f = [selp == z3.BitVecVal(i, sw) for i in range(len(T))]
                fn = [selnp == z3.BitVecVal(i, sw) for i in range(len(T))]
                idle = selp == z3.BitVecVal(len(T), sw)
            else:
                selp = selnp = None
                f = [z3.Bool(f"fire!{i}") for i in range(len(T))]
                fn = [z3.Bool(f"firenext!{i}") for i in range(len(T))]
                idle = z3.Bool("idle!")
            writers = {}
            for i, tr in enumerate(T):
                for n in tr.updates:
                    writers.setdefault(n, []).append(i)
            step = [z3.Implies(f[i], tr.guard) for i, tr in enumerate(T)]
            if self.choice == "sel":
                step.append(z3.ULE(selp, z3.BitVecVal(len(T), sw)))
            elif self.choice == "pb":
                step.append(z3.PbEq([(x, 1) for x in f] + [(idle, 1)], 1))
            else:
                xs = list(f) + [idle]
                lad = [z3.Bool(f"ladder!{i}") for i in range(len(xs))]
                step.append(lad[0] == xs[0])
                for i in range(1, len(xs)):
                    step.append(lad[i] == z3.Or(lad[i - 1], xs[i]))
                    step.append(z3.Not(z3.And(lad[i - 1], xs[i])))
                step.append(lad[-1])
                self._lad = lad
            step.append(z3.Implies(idle, z3.Not(z3.Or(*[tr.guard for tr in T]))))
            for n in self.names:
                nxt = self.S.pre[n]
                for i in reversed(writers.get(n, [])):
                    nxt = z3.If(f[i], T[i].updates[n], nxt)
                step.append(post[n] == nxt)
            step = z3.And(*step)
            cons = []
            for n, (sort, init) in self.S.decl.items():
                if init is not None:
                    v = self.vars[0][n]
                    cons.append(v == (z3.BoolVal(init) if sort == "bool" else z3.BitVecVal(init, sort)))
            for k in range(K):
                pairs = list(self.subs[k]) + [(post[n], self.vars[k + 1][n]) for n in self.names]
                if self.choice == "sel":
                    pairs += [(selp, self.sel[k])]
                else:
                    pairs += [(f[i], self.fire[k][i]) for i in range(len(T))] + [(idle, self.idle[k])]
                    if self.choice == "ladder":
                        pairs += [(l, z3.Bool(f"ladder@{k}@{i}")) for i, l in enumerate(self._lad)]
                cons.append(z3.substitute(step, pairs))
            self._unrolled = cons
            self._f, self._fn, self._selp, self._selnp = f, fn, selp, selnp
        cons = list(self._unrolled)
        if init_extra is None:
            init_extra = self.init_extra
        if init_extra is not None:
            cons.append(self.at(init_extra, 0))
        if self.por:
            pairs = self.independent_pairs(visible)
            self.n_por_pairs = len(pairs)
            if pairs:
                f, fn = self._f, self._fn
                por = z3.And(*[z3.Not(z3.And(f[i], fn[j])) for i, j in pairs])
                for k in range(K - 1):
                    if self.choice == "sel":
                        cons.append(z3.substitute(por, [(self._selp, self.sel[k]), (self._selnp, self.sel[k + 1])]))
                    else:
                        cons.append(z3.substitute(por, [(f[i], self.fire[k][i]) for i in range(len(T))] +
                                                  [(fn[i], self.fire[k + 1][i]) for i in range(len(T))]))
        self.base = cons
        return cons

    def independent_pairs(self, visible):
        T = self.T
        out = []
        vis = [bool(tr.writes & visible) for tr in T]
        for i, a in enumerate(T):
            for j, b in enumerate(T):
                if a.thread.tid <= b.thread.tid:
                    continue
                if vis[i] and vis[j]:
                    continue
                if a.writes & (b.reads | b.writes) or b.writes & (a.reads | a.writes):
                    continue
                out.append((i, j))
        return out

    # ------------------------------------------------------------------ queries
    def solve(self, extra, visible_of=None):
        visible = set()
        for e in (visible_of or []):
            collect_consts(e, visible)
        cons = self.unroll(frozenset(visible))
        s = z3.Then("simplify", "propagate-values", "solve-eqs", "bit-blast", "sat").solver()
        s.set("timeout", int(self.timeout_s * 1000))
        s.add(*cons)
        s.add(extra(self))
        t0 = time.time()
        r = s.check()
        dt = time.time() - t0
        self.queries += 1
        self.solver_s += dt
        if r == z3.sat:
            m = s.model()
            return Result("sat", dt, self.trace(m), m)
        if r == z3.unsat:
            return Result("unsat", dt)
        return Result("unknown", dt)

    def dump_smt2(self, extra, visible_of, path):
        visible = set()
        for e in (visible_of or []):
            collect_consts(e, visible)
        cons = self.unroll(frozenset(visible))
        s = z3.Solver()
        s.add(*cons)
        s.add(extra(self))
        with open(path, "w") as f:
            f.write("(set-logic QF_BV)\n" + s.to_smt2())

    def safety(self, bad, exclude=()):
        """Is a state satisfying `bad` (z3 term over pre-state constants) reachable within K steps?
        `exclude`: schedules (lists of (step, transition index)) already seen, not to be returned again."""
        return self.solve(lambda b: z3.And(z3.Or(*[b.at(bad, k) for k in range(b.K + 1)]), *b._not(exclude)), [bad])

    def stuck(self, pred, exclude=()):
        """Is a state with no enabled transition and satisfying `pred` reachable within K-1 steps?"""
        return self.solve(lambda b: z3.And(z3.Or(*[z3.And(b.idle[k], b.at(pred, k)) for k in range(b.K)]),
                                           *b._not(exclude)), [])

    def _not(self, schedules):
        return [z3.Not(z3.And(*[self.fire[k][i] for k, i in sch])) for sch in schedules if sch]

    def schedule(self, m):
        """The firing sequence of a model: [(step, transition index)] up to the first idle step."""
        out = []
        for k in range(self.K):
            if z3.is_true(m.eval(self.idle[k], model_completion=True)):
                break
            for i, f in enumerate(self.fire[k]):
                if z3.is_true(m.eval(f, model_completion=True)):
                    out.append((k, i))
                    break
        return out

    def reach(self, goal):
        return self.safety(goal)

    # ------------------------------------------------------------------ traces
    def trace(self, m):
        out = []
        for k in range(self.K):
            if z3.is_true(m.eval(self.idle[k], model_completion=True)):
                out.append({"step": k, "idle": True})
                break
            for i, f in enumerate(self.fire[k]):
                if z3.is_true(m.eval(f, model_completion=True)):
                    tr = self.T[i]
                    out.append(dict(tr.info, step=k, label=tr.label))
                    break
        return out

    def state_at(self, m, k):
        d = {}
        for n in self.names:
            v = m.eval(self.vars[k][n], model_completion=True)
            d[n] = z3.is_true(v) if z3.is_bool(v) else v.as_long()
        return d
