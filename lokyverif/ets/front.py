"""E-TS front end: Python AST (re-read from /repo on every run) -> control-flow graph.

The CFG is built in continuation-passing style.  Nodes:
  call    visible primitive operation on a model object (result -> temp local),
          with exception edges
  assign  local := pure expression
  branch  two-way on a pure expression
  fail    assertion failure / uncaught exception (records the reason)
  end     thread finished (optionally with a return value)
Calls between loky functions/methods are inlined (fresh frame per call site).
`try/finally`, `with`, `for _ in range(n)`, `while`, short-circuit `and/or`, `return`
inside `try` are desugared here.  Anything outside the subset raises Unsupported
(the check then exits 2: inconclusive).
"""
import ast
import inspect
import itertools
import sys

sys.setrecursionlimit(max(sys.getrecursionlimit(), 20000))  # the CFG is built in continuation-passing style


class Unsupported(Exception):
    pass


class ObjRef:
    """Compile-time reference to a model object."""

    def __init__(self, name):
        self.name = name

    def __repr__(self):
        return f"<{self.name}>"


class Node:
    _ids = itertools.count()

    def __init__(self, kind, **kw):
        self.id = next(Node._ids)
        self.kind = kind
        self.__dict__.update(kw)

    def __repr__(self):
        extra = {k: v for k, v in self.__dict__.items() if k not in ("id", "kind", "next", "t", "f", "exc")}
        return f"N{self.id}:{self.kind}{extra}"


# Pure expression IR (evaluated at transition-generation time):
#  ('c', const) ('v', local) ('o', objname) ('un', op, a) ('bin', op, a, b) ('cmp', op, a, b)
#  ('and', [..]) ('or', [..]) ('not', a) ('ite', c, a, b) ('tuple', [..]) ('tag', tagname, payload)

EXC_PARENTS = {
    "BaseException": None, "Exception": "BaseException", "ValueError": "Exception", "KeyError": "Exception",
    "AssertionError": "Exception", "RuntimeError": "Exception", "TypeError": "Exception", "Full": "Exception",
    "Empty": "Exception", "OSError": "Exception", "EOFError": "Exception", "ProcessLookupError": "OSError",
    "PicklingError": "Exception", "BrokenProcessPool": "RuntimeError", "TerminatedWorkerError": "BrokenProcessPool",
    "ShutdownExecutorError": "RuntimeError", "SystemExit": "BaseException", "KeyboardInterrupt": "BaseException",
    "IndexError": "Exception", "AttributeError": "Exception", "NotImplementedError": "RuntimeError",
}


def exc_matches(name, handler_names):
    for h in handler_names:
        t = name
        while t is not None:
            if t == h:
                return True
            t = EXC_PARENTS.get(t, "Exception" if t not in EXC_PARENTS else None)
    return False


class ClassTable:
    """Methods of the translated classes, looked up through the base classes found in the AST."""

    def __init__(self, modules):
        self.classes = {}
        self.funcs = {}
        self.sources = {}
        self.modules = list(modules)
        for m in modules:
            src = inspect.getsource(m)
            tree = ast.parse(src)
            for node in tree.body:
                if isinstance(node, ast.ClassDef):
                    bases = [b.id for b in node.bases if isinstance(b, ast.Name)]
                    meths = {s.name: s for s in node.body if isinstance(s, ast.FunctionDef)}
                    self.classes[node.name] = (bases, meths, m.__name__)
                elif isinstance(node, ast.FunctionDef):
                    self.funcs[node.name] = (node, m.__name__)

    def method(self, cls, name):
        seen = set()
        todo = [cls]
        while todo:
            c = todo.pop(0)
            if c in seen or c not in self.classes:
                continue
            seen.add(c)
            bases, meths, _ = self.classes[c]
            if name in meths:
                return meths[name], c
            todo += bases
        return None, None


class Ctx:
    def __init__(self, comp, frame, env, ret_k, handlers, loops, finallies):
        self.comp, self.frame, self.env = comp, frame, env
        self.ret_k = ret_k          # callable(rexpr) -> node : what `return v` continues with
        self.handlers = handlers    # list of (names, bindname, callable() -> node) innermost last
        self.loops = loops          # list of (break_node_thunk, continue_node_thunk)
        self.finallies = finallies  # list of callables(k_node) -> node wrapping a continuation

    def child(self, **kw):
        c = Ctx(self.comp, self.frame, self.env, self.ret_k, list(self.handlers), list(self.loops),
                list(self.finallies))
        for a, v in self.__dict__.items():  # qual, gdecl, inline_stack, current_exc, ...
            if a not in c.__dict__:
                c.__dict__[a] = v
        c.__dict__.update(kw)
        return c

    def local(self, name):
        return f"{self.frame}.{name}"


class Compiler:
    """bindings: object -> {'cls': loky class name or None, 'attrs': {attr: ObjRef | const}, 'prims': model}
    prims(model) is an object with method `spec(method_name)` returning the list of exception names the
    primitive may raise (or None if the model has no such method)."""

    def __init__(self, classtable, objects, opaque_calls=()):
        self.ct = classtable
        self.objects = objects
        self.frames = itertools.count()
        self.tmp = itertools.count()
        self.opaque = set(opaque_calls)  # dotted names compiled to no-ops (logging, formatting)
        self.used_functions = set()
        self.immutable = set()  # names of input variables that are never written
        # record values ('rec', cls, {field: rexpr}); an optional record has the Boolean field '?'
        self.rec_attrs = {}     # (cls, attr) -> fn(fields) -> rexpr | ('primcall', obj, method, [args])
        self.rec_methods = {}   # (cls, method) -> (obj, method, fn(fields) -> [leading args])
        self.ctors = {}         # name -> fn(args, kwargs) -> rexpr
        self.unroll = {}        # object name -> universe size (for loops over dict values)
        self.ref_exc = {}       # object name -> exception class raised by `raise <that object>`
        self.kwargs_expanders = {}  # record class -> fn(fields) -> {keyword: rexpr}

    # ------------------------------------------------------------------ instance attributes the model does not list
    def declare_auto_fields(self, S, skip_methods=("__init__", "__setstate__", "__getstate__", "_make_methods", "__repr__")):
        """Instance attributes that the (current) source assigns in a method body (`self.x = ...`) but that the
        object graph does not list become plain integer/Boolean fields hosted by an automatic model, so that a
        change which keeps per-call state on the shared object (instead of in a local) is compiled and checked
        rather than rejected as unsupported. Initial value 0 / False; written and read like any other field."""
        from .prims_exec import FieldsModel
        made = []
        for oname, info in list(self.objects.items()):
            cls = info.get("cls")
            if not cls:
                continue
            seen, todo, found = set(), [cls], {}
            while todo:
                c = todo.pop(0)
                if c in seen or c not in self.ct.classes:
                    continue
                seen.add(c)
                bases, meths, _ = self.ct.classes[c]
                todo += bases
                for mname, fn in meths.items():
                    if mname in skip_methods or not fn.args.args:
                        continue
                    me = fn.args.args[0].arg
                    for node in ast.walk(fn):
                        tgts = []
                        if isinstance(node, ast.Assign):
                            tgts, val = node.targets, node.value
                        elif isinstance(node, (ast.AugAssign, ast.AnnAssign)):
                            tgts, val = [node.target], node.value
                        for t in tgts:
                            for tt in (t.elts if isinstance(t, ast.Tuple) else [t]):
                                if isinstance(tt, ast.Attribute) and isinstance(tt.value, ast.Name) and tt.value.id == me:
                                    isb = isinstance(val, ast.Constant) and isinstance(val.value, bool)
                                    found.setdefault(tt.attr, "bool" if isb else "int")
            attrs = info.setdefault("attrs", {})
            new = {a: ty for a, ty in found.items() if a not in attrs}
            if not new:
                continue
            host = f"{oname}.$auto"
            self.objects[host] = {"model": FieldsModel(host, S, {a: (ty, False if ty == "bool" else 0) for a, ty in new.items()})}
            for a in new:
                attrs[a] = ("field", host)
                made.append(f"{oname}.{a}")
        self.auto_fields = made
        return made

    # ------------------------------------------------------------------ entry
    def compile_call(self, obj, method, args_rexpr, end_label="end"):
        """CFG for `obj.method(*args)` run as a thread body / API call. Returns entry node."""
        end = lambda r: Node("end", value=r, label=end_label)
        ctx = Ctx(self, "top", {}, end, [], [], [])
        return self.call_method(ObjRef(obj), method, args_rexpr, {}, ctx, lambda r: end(r))

    # ------------------------------------------------------------------ calls
    def call_method(self, oref, method, args, kwargs, ctx, k):
        info = self.objects.get(oref.name)
        if info is None:
            raise Unsupported(f"unknown object {oref.name}")
        fdef, owner = (None, None)
        if info.get("cls"):
            fdef, owner = self.ct.method(info["cls"], method)
        inst_attr = info.get("attrs", {}).get(method)
        if inst_attr is not None and isinstance(inst_attr, tuple) and inst_attr[0] == "bound":
            # instance attribute bound to another object's method (e.g. SemLock._make_methods)
            return self.call_method(ObjRef(inst_attr[1]), inst_attr[2], args, kwargs, ctx, k)
        if fdef is not None:
            self.used_functions.add(f"{owner}.{method}")
            return self.inline(fdef, [("o", oref.name)] + list(args), kwargs, ctx, k, f"{owner}.{method}")
        model = info.get("model")
        if model is not None and model.spec(method) is not None:
            return self.prim_call(oref.name, method, args, kwargs, ctx, k)
        raise Unsupported(f"no translation or model for {oref.name}.{method}")

    def prim_call(self, oname, method, args, kwargs, ctx, k):
        model = self.objects[oname]["model"]
        raises = model.spec(method)
        tmp = f"{ctx.frame}.$t{next(self.tmp)}"
        n = Node("call", obj=oname, method=method, args=list(args), kwargs=dict(kwargs), target=tmp)
        rt = model.result_type(method)
        n.next = k(self.result_rexpr(rt, tmp))
        n.exc = {}
        for e in raises:
            n.exc[e] = self.raise_to(e, ctx)
        return n

    def save_value(self, r, tmp, assigns):
        """Copy the dynamic parts of value `r` into temps named after `tmp`; returns the saved value."""
        if r[0] == "v":
            assigns.append((tmp, r))
            return ("v", tmp)
        if r[0] == "rec":
            fields = {}
            for f, fv in r[2].items():
                fields[f] = fv if fv[0] == "c" else self.save_value(fv, f"{tmp}#{f}", assigns)
            return ("rec", r[1], fields)
        if r[0] in ("tuple", "list"):
            return (r[0], [x if x[0] in ("c", "o") else self.save_value(x, f"{tmp}.{i}", assigns) for i, x in enumerate(r[1])])
        if r[0] in ("c", "o", "meth", "bound"):
            return r
        assigns.append((tmp, r))
        return ("v", tmp)

    def deref(self, r, ctx, k, exc):
        """r = ('rec', 'Ref:<obj>', {'?': present}): continue with the object, or raise `exc` when None."""
        target = ("o", r[1][4:])
        pres = r[2].get("?", ("c", True))
        if pres == ("c", True):
            return k(target)
        return Node("branch", test=pres, t=k(target), f=self.raise_to(exc, ctx))

    def result_rexpr(self, rt, tmp):
        if isinstance(rt, tuple) and rt[0] == "rec":
            return ("rec", rt[1], {f: ("v", f"{tmp}#{f}") for f in rt[2]})
        if isinstance(rt, tuple) and rt[0] == "tuple":
            return ("tuple", [self.result_rexpr(x, f"{tmp}.{i}") for i, x in enumerate(rt[1])])
        if rt is None:
            return ("c", None)
        return ("v", tmp)

    def inline(self, fdef, args, kwargs, ctx, k, qual):
        depth = getattr(ctx, "inline_stack", ())
        if depth.count(qual) >= 2:
            # the same function is already being inlined twice on this path: cut the recursion with an
            # explicit failure node (reaching it is reported, not silently ignored)
            return Node("fail", reason=f"recursion deeper than 2 in {qual}", exc="RecursionError", where=qual)
        frame = f"f{next(self.frames)}"
        env = {}
        if "**" in kwargs:
            # f(**kw) where kw is a record standing for a keyword dict: expand it through the slice's table
            kw = kwargs["**"]
            exp = self.kwargs_expanders.get(kw[1]) if kw[0] == "rec" else None
            if exp is None:
                raise Unsupported(f"**kwargs of unknown shape in call of {qual}")
            kwargs = dict(exp(kw[2]), **{a: b for a, b in kwargs.items() if a != "**"})
        params = [a.arg for a in fdef.args.args]
        defaults = [None] * (len(params) - len(fdef.args.defaults)) + list(fdef.args.defaults)
        pre = []  # assignments of dynamic args to frame locals
        assigned = {n.id for b in fdef.body for n in ast.walk(b) if isinstance(n, ast.Name) and isinstance(n.ctx, ast.Store)}
        for i, p in enumerate(params):
            if i < len(args):
                v = args[i]
            elif p in kwargs:
                v = kwargs[p]
            elif defaults[i] is not None:
                v = self.pure(defaults[i], Ctx(self, frame, {}, None, [], [], []))
            else:
                raise Unsupported(f"missing argument {p} for {qual}")
            typable = v[0] == "v" or (v[0] == "c" and isinstance(v[1], (bool, int)) and v[1] is not None)
            if p in assigned and typable:
                # the parameter is re-assigned somewhere in the body: it lives in a frame local from the start,
                # so that every path reads the same variable
                env[p] = ("v", f"{frame}.{p}")
                pre.append((f"{frame}.{p}", v))
            elif v[0] in ("o", "c", "meth", "bound", "recmeth") or (v[0] == "v" and v[1] in self.immutable):
                env[p] = v
            elif v[0] == "rec":
                fields = {}
                for f, fv in v[2].items():
                    if fv[0] == "c" or (fv[0] == "v" and fv[1] in self.immutable):
                        fields[f] = fv
                    else:
                        fields[f] = ("v", f"{frame}.{p}#{f}")
                        pre.append((f"{frame}.{p}#{f}", fv))
                env[p] = ("rec", v[1], fields)
            elif v[0] in ("tuple", "list"):
                env[p] = v  # compile-time structure of pure expressions (evaluated where used)
            else:
                env[p] = ("v", f"{frame}.{p}")
                pre.append((f"{frame}.{p}", v))
        if fdef.args.kwarg is not None:
            env[fdef.args.kwarg.arg] = ("c", "<kwargs>")
        if fdef.args.vararg is not None:
            env[fdef.args.vararg.arg] = ("tuple", list(args[len(params):]))
        elif len(args) > len(params):
            raise Unsupported(f"too many arguments for {qual}")
        inner = Ctx(self, frame, env, k, ctx.handlers, [], ctx.finallies)
        inner.qual = qual
        inner.inline_stack = depth + (qual,)
        body = self.stmts(fdef.body, inner, lambda: k(("c", None)))
        for name, v in reversed(pre):
            body = Node("assign", target=name, value=v, next=body)
        return body

    # ------------------------------------------------------------------ exceptions
    def raise_to(self, exc, ctx):
        """Node reached when `exc` is raised at a point with ctx's handler stack."""
        for i in range(len(ctx.handlers) - 1, -1, -1):
            names, thunk = ctx.handlers[i]
            if names is None or exc_matches(exc, names):
                return thunk(exc)
        return Node("fail", reason=f"uncaught {exc}", exc=exc, where=getattr(ctx, "qual", "?"))

    # ------------------------------------------------------------------ statements
    def stmts(self, body, ctx, k):
        """k: thunk () -> node for falling off the end."""
        if not body:
            return k()
        first, rest = body[0], body[1:]
        return self.stmt(first, ctx, lambda: self.stmts(rest, ctx, k))

    def stmt(self, s, ctx, k):
        m = getattr(self, "s_" + type(s).__name__, None)
        if m is None:
            raise Unsupported(f"statement {type(s).__name__} (line {s.lineno}) in {getattr(ctx, 'qual', '?')}")
        return m(s, ctx, k)

    def s_Pass(self, s, ctx, k):
        return k()

    def s_Expr(self, s, ctx, k):
        if isinstance(s.value, ast.Constant):
            return k()
        return self.expr(s.value, ctx, lambda r: k())

    def s_Assert(self, s, ctx, k):
        def after(r):
            ok = k()
            if r == ("c", True):
                return ok
            bad = self.raise_to("AssertionError", ctx)
            if bad.kind == "fail":
                bad.reason = f"assert failed at line {s.lineno} of {getattr(ctx, 'qual', '?')}"
                bad.line = s.lineno
            return Node("branch", test=r, t=ok, f=bad)
        return self.expr(s.test, ctx, after)

    def s_Return(self, s, ctx, k):
        def after(r):
            return ctx.ret_k(r)
        if s.value is None:
            return after(("c", None))
        return self.expr(s.value, ctx, after)

    def s_Assign(self, s, ctx, k):
        def after(r):
            def chain(i):
                if i == len(s.targets):
                    return k()
                return self.store(s.targets[i], r, ctx, lambda: chain(i + 1))
            return chain(0)
        return self.expr(s.value, ctx, after)

    def store(self, t, r, ctx, k):
        if isinstance(t, ast.Name) and t.id in getattr(ctx, "gdecl", ()):
            g = self.comp_globals().get(t.id)
            if g is None or g[0] != "gfield":
                raise Unsupported(f"assignment to unmodelled global {t.id}")
            return self.prim_call(g[1], f"set:{t.id}", [r], {}, ctx, lambda _: k())
        if isinstance(t, ast.Name):
            if r[0] == "o" and t.id not in ctx.env:
                ctx.env[t.id] = r  # static alias of a model object
                return k()
            if r[0] == "c" and r[1] is None:
                # `x = None`: clear the presence flag of the (possibly later) optional record stored in x
                cur = ctx.env.get(t.id)
                if cur is not None and cur[0] == "rec" and "?" in cur[2] and cur[2]["?"][0] == "v":
                    return Node("assign", target=cur[2]["?"][1], value=("c", False), next=k())
                if cur is None or cur[0] != "rec":
                    ctx.env[t.id] = ("c", None)
                return Node("assign", target=f"{ctx.local(t.id)}#?", value=("c", False), next=k())
            if r[0] == "rec":
                base = ctx.local(t.id)
                fields = {f: ("v", f"{base}#{f}") for f in r[2]}
                ctx.env[t.id] = ("rec", r[1], fields)
                node = k()
                for f in reversed(list(r[2])):
                    if r[2][f] != fields[f]:
                        node = Node("assign", target=fields[f][1], value=r[2][f], next=node)
                return node
            if r[0] in ("meth", "bound", "list", "tuple"):
                ctx.env[t.id] = r
                return k()
            if r[0] == "c" and isinstance(r[1], float):
                ctx.env[t.id] = r  # clock/back-off arithmetic stays a compile-time constant (time is abstracted)
                return k()
            if r[0] in ("c",) and isinstance(r[1], str):
                ctx.env[t.id] = r  # opaque text / tags stay compile-time constants
                return k()
            ctx.env[t.id] = ("v", ctx.local(t.id))
            return Node("assign", target=ctx.local(t.id), value=r, next=k())
        if isinstance(t, ast.Subscript):
            def after_obj(o):
                if o[0] != "o":
                    raise Unsupported("subscript store on dynamic object")
                return self.expr(t.slice, ctx, lambda key: self.prim_call(o[1], "__setitem__", [key, r], {}, ctx, lambda _: k()))
            return self.expr(t.value, ctx, after_obj)
        if isinstance(t, ast.Tuple) and r[0] == "tuple" and len(r[1]) == len(t.elts):
            def chain(i):
                if i == len(t.elts):
                    return k()
                return self.store(t.elts[i], r[1][i], ctx, lambda: chain(i + 1))
            return chain(0)
        if isinstance(t, ast.Attribute):
            def after(o):
                if o[0] == "rec":
                    if (o[1], "set:" + t.attr) in self.rec_methods:
                        obj, meth, lead = self.rec_methods[(o[1], "set:" + t.attr)]
                        return self.prim_call(obj, meth, list(lead(o[2])) + [r], {}, ctx, lambda _: k())
                    return k()  # attributes of value records (exception causes, bookkeeping) are not modelled
                if o[0] != "o":
                    raise Unsupported("attribute store on dynamic object")
                a = self.objects[o[1]].get("attrs", {}).get(t.attr)
                if not (isinstance(a, tuple) and a[0] == "field"):
                    raise Unsupported(f"store to unmodelled attribute {o[1]}.{t.attr}")
                return self.prim_call(a[1] if len(a) > 1 else o[1], f"set:{t.attr}", [r], {}, ctx, lambda _: k())
            return self.expr(t.value, ctx, after)
        raise Unsupported(f"store to {ast.dump(t)}")

    def s_AugAssign(self, s, ctx, k):
        if isinstance(s.target, ast.Attribute) and isinstance(s.op, ast.Add) and isinstance(s.value, ast.List):
            def after_obj(o):
                if o[0] != "o":
                    raise Unsupported("augmented assignment on dynamic object")

                def after_target(tgt):
                    if tgt[0] != "o":
                        raise Unsupported("+= on a non-container attribute")

                    def items(i, acc):
                        if i == len(s.value.elts):
                            def chain(j):
                                if j == len(acc):
                                    return k()
                                return self.prim_call(tgt[1], "append", [acc[j]], {}, ctx, lambda _: chain(j + 1))
                            return chain(0)
                        return self.expr(s.value.elts[i], ctx, lambda r: items(i + 1, acc + [r]))
                    return items(0, [])
                return self.e_Attribute(s.target, ctx, after_target)
            return self.expr(s.target.value, ctx, after_obj)
        load = ast.copy_location(ast.parse(ast.unparse(s.target), mode="eval").body, s)
        binop = ast.copy_location(ast.BinOp(left=load, op=s.op, right=s.value), s)
        return self.s_Assign(ast.copy_location(ast.Assign(targets=[s.target], value=binop), s), ctx, k)

    def s_If(self, s, ctx, k):
        join = Lazy(k)
        return self.cond(s.test, ctx,
                         lambda: self.stmts(s.body, ctx, join.get),
                         lambda: self.stmts(s.orelse, ctx, join.get))

    def s_While(self, s, ctx, k):
        head = Node("assign", target=None, value=None)  # placeholder, becomes a no-op jump
        after = Lazy(lambda: self.stmts(s.orelse, ctx, k) if s.orelse else k())
        inner = ctx.child(loops=ctx.loops + [(after.get, lambda: head)])
        inner.env = ctx.env
        entry = self.cond(s.test, inner, lambda: self.stmts(s.body, inner, lambda: head), after.get)
        head.kind, head.next = "jump", entry
        return head

    def s_For(self, s, ctx, k):
        # only `for <name> in range(<pure int>)`
        if not (isinstance(s.iter, ast.Call) and isinstance(s.iter.func, ast.Name) and s.iter.func.id == "range"):
            return self.for_over_snapshot(s, ctx, k)
        if not isinstance(s.target, ast.Name):
            raise Unsupported("for target")
        if len(s.iter.args) == 1:
            lo, hi = ast.Constant(0), s.iter.args[0]
        elif len(s.iter.args) == 2:
            lo, hi = s.iter.args
        else:
            raise Unsupported("range with step")
        ivar = ctx.local(f"$i{next(self.tmp)}")
        hvar = ctx.local(f"$n{next(self.tmp)}")

        def with_bounds(rlo, rhi):
            head = Node("jump")
            after = Lazy(k)
            inner = ctx.child(loops=ctx.loops + [(after.get, lambda: incr)])
            inner.env = ctx.env
            incr = Node("assign", target=ivar, value=("bin", "+", ("v", ivar), ("c", 1)), next=head)
            ctx.env[s.target.id] = ("v", ivar)
            body = self.stmts(s.body, inner, lambda: incr)
            head.next = Node("branch", test=("cmp", "<", ("v", ivar), ("v", hvar)), t=body, f=after.get())
            return Node("assign", target=hvar, value=rhi,
                        next=Node("assign", target=ivar, value=rlo, next=head))
        assigned = {n.id for b in s.body for n in ast.walk(b) if isinstance(n, ast.Name) and isinstance(n.ctx, ast.Store)}

        def with_bounds_nocopy(rlo, rhi):
            nonlocal hvar
            if rhi[0] == "c" or (rhi[0] == "v" and rhi[1].split(".", 1)[-1] not in assigned):
                head = Node("jump")
                after = Lazy(k)
                inner = ctx.child(loops=ctx.loops + [(after.get, lambda: incr)])
                inner.env = ctx.env
                incr = Node("assign", target=ivar, value=("bin", "+", ("v", ivar), ("c", 1)), next=head)
                ctx.env[s.target.id] = ("v", ivar)
                body = self.stmts(s.body, inner, lambda: incr)
                head.next = Node("branch", test=("cmp", "<", ("v", ivar), rhi), t=body, f=after.get())
                return Node("assign", target=ivar, value=rlo, next=head)
            return with_bounds(rlo, rhi)
        return self.expr(lo, ctx, lambda rlo: self.expr(hi, ctx, lambda rhi: with_bounds_nocopy(rlo, rhi)))
        return self.expr(lo, ctx, lambda rlo: self.expr(hi, ctx, lambda rhi: with_bounds(rlo, rhi)))

    def values_source(self, it):
        """`list(X.values())` / `X.values()` -> (ast of X, snapshot?)"""
        snap = False
        if isinstance(it, ast.Call) and isinstance(it.func, ast.Name) and it.func.id == "list" and len(it.args) == 1:
            it, snap = it.args[0], True
        if isinstance(it, ast.Call) and isinstance(it.func, ast.Attribute) and it.func.attr == "values" and not it.args:
            return it.func.value, snap
        return None, False

    def for_over_snapshot(self, s, ctx, k):
        src, snap = self.values_source(s.iter)
        if src is None or not isinstance(s.target, ast.Name):
            raise Unsupported(f"for over {ast.unparse(s.iter)} (line {s.lineno})")

        def after_obj(o):
            if o[0] != "o" or o[1] not in self.unroll:
                raise Unsupported(f"iteration over {ast.unparse(src)}")
            n = self.unroll[o[1]]
            cls = self.objects[o[1]]["model"].value_cls
            mask = ctx.local(f"$snap{next(self.tmp)}")
            after = Lazy(k)

            def item(i):
                if i == n:
                    return after.get()
                inner = ctx.child(loops=ctx.loops + [(after.get, lambda: item_l[i + 1].get())])
                inner.env = ctx.env
                ctx.env[s.target.id] = ("rec", cls, {"i": ("c", i)})
                body = self.stmts(s.body, inner, lambda: item_l[i + 1].get())
                # (iteration over the live dict is treated like iteration over a snapshot taken at loop entry:
                #  "dictionary changed size during iteration" is not modelled)
                return Node("branch", test=("bit", ("v", mask), i), t=body, f=item_l[i + 1].get())
            item_l = [Lazy(lambda i=i: item(i)) for i in range(n + 1)]

            def got(r):
                # r = rec Snapshot {mask, n}
                ctx.env["$" + mask] = r
                nodes = item_l[0].get()
                nodes = Node("assign", target=mask + "#n", value=r[2]["n"], next=nodes)
                return Node("assign", target=mask, value=r[2]["mask"], next=nodes)
            return self.prim_call(o[1], "__snapshot__", [], {}, ctx, got)
        return self.expr(src, ctx, after_obj)

    def s_Break(self, s, ctx, k):
        return ctx.loops[-1][0]()

    def s_Continue(self, s, ctx, k):
        return ctx.loops[-1][1]()

    def s_Raise(self, s, ctx, k):
        if s.exc is None:
            cur = getattr(ctx, "current_exc", None)
            if cur is None:
                raise Unsupported("bare raise outside handler")
            return self.raise_to(cur, ctx.outer_for_reraise)
        name = s.exc.func.id if isinstance(s.exc, ast.Call) and isinstance(s.exc.func, ast.Name) else \
            (s.exc.id if isinstance(s.exc, ast.Name) else None)
        if name is not None and name in ctx.env:
            name = None  # `raise e` of a local
        if name is None:
            def after(r):
                if r[0] == "rec" and r[1].startswith("Ref:"):
                    return self.raise_to(self.ref_exc.get(r[1][4:], "Exception"), ctx)
                if r[0] == "rec" and r[1] == "Exc":
                    return self.raise_to("Exception", ctx)
                if r[0] == "c" and isinstance(r[1], tuple) and r[1][0] == "exc":
                    return self.raise_to(r[1][1], ctx)
                raise Unsupported("raise of computed exception")
            return self.expr(s.exc, ctx, after)
        return self.raise_to(name, ctx)

    def s_Try(self, s, ctx, k):
        fin = s.finalbody

        def wrap_fin(node_thunk, fctx):
            """Run the finally body (compiled afresh for this exit path), then continue with node_thunk()."""
            if not fin:
                return node_thunk()
            return self.stmts(fin, fctx, node_thunk)

        after = Lazy(k)
        # context for the finally body itself: handlers/returns of the *outer* context
        outer = ctx
        # return inside try/handlers: finally first, then the outer return
        def ret_k(r):
            if not fin:
                return ctx.ret_k(r)
            # keep the value in a temp while the finally body runs
            if r[0] in ("c", "o"):
                return wrap_fin(lambda: ctx.ret_k(r), outer)
            tmp = ctx.local(f"$ret{next(self.tmp)}")
            assigns = []
            saved = self.save_value(r, tmp, assigns)
            node = wrap_fin(lambda: ctx.ret_k(saved), outer)
            for tgt, val in reversed(assigns):
                node = Node("assign", target=tgt, value=val, next=node)
            return node

        loops = [(lambda b=b: wrap_fin(b, outer), lambda c=c: wrap_fin(c, outer)) for b, c in ctx.loops]

        # exceptions escaping body+handlers: finally, then propagate outward
        def escape(exc):
            return wrap_fin(lambda: self.raise_to(exc, outer), outer)

        hctx_handlers = ctx.handlers + ([(None, escape)] if fin else [])
        body_handlers = list(hctx_handlers)
        for h in reversed(s.handlers):
            names = self.handler_names(h)

            def thunk(exc, h=h):
                hctx = ctx.child(handlers=hctx_handlers, ret_k=ret_k, loops=loops)
                hctx.env = ctx.env
                hctx.current_exc = exc
                hctx.outer_for_reraise = ctx.child(handlers=hctx_handlers)
                if h.name:
                    ctx.env[h.name] = ("c", ("exc", exc))
                return self.stmts(h.body, hctx, lambda: wrap_fin(after.get, outer))
            body_handlers = body_handlers + [(names, thunk)]
        bctx = ctx.child(handlers=body_handlers, ret_k=ret_k, loops=loops)
        bctx.env = ctx.env
        if s.orelse:
            ectx = ctx.child(handlers=hctx_handlers, ret_k=ret_k, loops=loops)
            ectx.env = ctx.env
            return self.stmts(s.body, bctx, lambda: self.stmts(s.orelse, ectx, lambda: wrap_fin(after.get, outer)))
        return self.stmts(s.body, bctx, lambda: wrap_fin(after.get, outer))

    def handler_names(self, h):
        if h.type is None:
            return None
        ts = h.type.elts if isinstance(h.type, ast.Tuple) else [h.type]
        out = []
        for t in ts:
            if isinstance(t, ast.Name):
                out.append(t.id)
            elif isinstance(t, ast.Attribute):
                out.append(t.attr)
            else:
                raise Unsupported("except clause")
        return out

    def s_With(self, s, ctx, k):
        if len(s.items) != 1:
            raise Unsupported("multi-item with")
        item = s.items[0]

        def after_cm(cm):
            if cm[0] == "rec" and cm[1].startswith("Ref:"):
                # `with None:` raises TypeError (no context manager protocol)
                return self.deref(cm, ctx, after_cm, "TypeError")
            if cm[0] != "o":
                raise Unsupported("with on dynamic object")
            oref = ObjRef(cm[1])
            body_try = ast.Try(body=s.body, handlers=[], orelse=[], finalbody=[
                ast.Expr(ast.Call(func=ast.Attribute(value=ast.Name(id="$cm", ctx=ast.Load()), attr="__exit__",
                                                     ctx=ast.Load()),
                                  args=[ast.Constant(None)] * 3, keywords=[]))])
            ast.fix_missing_locations(ast.copy_location(body_try, s))
            for n in ast.walk(body_try):
                if not hasattr(n, "lineno"):
                    n.lineno = s.lineno
            saved = ctx.env.get("$cm")
            ctx.env["$cm"] = cm

            def entered(r):
                if item.optional_vars is not None:
                    return self.store(item.optional_vars, r, ctx, lambda: self.s_Try(body_try, ctx, k))
                return self.s_Try(body_try, ctx, k)
            return self.call_method(oref, "__enter__", [], {}, ctx, entered)
        return self.expr(item.context_expr, ctx, after_cm)

    def s_Delete(self, s, ctx, k):
        subs = [t for t in s.targets if isinstance(t, ast.Subscript)]
        if not subs:
            return k()  # `del local` only drops a reference
        if len(s.targets) != 1:
            raise Unsupported("multi-target del")
        t = subs[0]

        def after_obj(o):
            if o[0] != "o":
                raise Unsupported("del item of dynamic object")
            return self.expr(t.slice, ctx, lambda key: self.prim_call(o[1], "__delitem__", [key], {}, ctx, lambda _: k()))
        return self.expr(t.value, ctx, after_obj)

    def s_Global(self, s, ctx, k):
        if not hasattr(ctx, "gdecl"):
            ctx.gdecl = set()
        ctx.gdecl.update(s.names)
        return k()

    # ------------------------------------------------------------------ expressions
    def cond(self, e, ctx, kt, kf):
        """Compile `e` in a Boolean context with short-circuit evaluation."""
        if isinstance(e, ast.BoolOp):
            vals = e.values
            kt, kf = Lazy(kt).get, Lazy(kf).get  # shared join points, not duplicated code
            if isinstance(e.op, ast.And):
                def chain(i):
                    if i == len(vals) - 1:
                        return self.cond(vals[i], ctx, kt, kf)
                    return self.cond(vals[i], ctx, lambda: chain(i + 1), kf)
            else:
                def chain(i):
                    if i == len(vals) - 1:
                        return self.cond(vals[i], ctx, kt, kf)
                    return self.cond(vals[i], ctx, kt, lambda: chain(i + 1))
            return chain(0)
        if isinstance(e, ast.UnaryOp) and isinstance(e.op, ast.Not):
            return self.cond(e.operand, ctx, kf, kt)

        def after(r):
            if r[0] == "c" and not (isinstance(r[1], tuple)):
                return kt() if r[1] else kf()
            env0 = dict(ctx.env)

            def kf_r():
                # the else-branch is compiled from the environment as it was before the then-branch
                saved = dict(ctx.env)
                ctx.env.clear()
                ctx.env.update(env0)
                try:
                    return kf()
                finally:
                    for n2, v2 in saved.items():
                        ctx.env.setdefault(n2, v2)
            if r[0] == "o":
                model = self.objects[r[1]].get("model")
                if model is not None and model.spec("__bool__") is not None:
                    return self.prim_call(r[1], "__bool__", [], {}, ctx,
                                          lambda b: Node("branch", test=b, t=kt(), f=kf_r()))
                return kt()
            if r[0] == "rec":
                pres = r[2].get("?")
                if pres is None:
                    tr = self.rec_attrs.get((r[1], "__bool__"))
                    if tr is None:
                        return kt()
                    return Node("branch", test=tr(r[2]), t=kt(), f=kf_r())
                return Node("branch", test=pres, t=kt(), f=kf_r())
            return Node("branch", test=r, t=kt(), f=kf_r())
        return self.expr(e, ctx, after)

    def expr(self, e, ctx, k):
        """k(rexpr) -> node. Hoists primitive calls into call nodes (left-to-right)."""
        m = getattr(self, "e_" + type(e).__name__, None)
        if m is None:
            raise Unsupported(f"expression {type(e).__name__} (line {getattr(e, 'lineno', '?')})")
        return m(e, ctx, k)

    def pure(self, e, ctx):
        out = []
        self.expr(e, ctx, lambda r: out.append(r) or Node("end", value=None, label="pure"))
        if len(out) != 1:
            raise Unsupported("default argument is not a pure expression")
        return out[0]

    def e_Constant(self, e, ctx, k):
        return k(("c", e.value))

    def e_Name(self, e, ctx, k):
        if e.id in ctx.env and e.id not in getattr(ctx, "gdecl", ()):
            return k(ctx.env[e.id])
        g = self.comp_globals().get(e.id)
        if g is not None and g[0] == "gfield":
            return self.prim_call(g[1], f"get:{e.id}", [], {}, ctx, k)  # mutable module-level state
        if g is not None:
            return k(g)
        if e.id in ("int", "str", "bool") or e.id in self.ctors or e.id in EXC_PARENTS:
            return k(("c", ("type", e.id)))
        # a plain module-level constant of one of the translated modules (also one that a change introduced):
        # its current value, read from the module itself
        for mod in getattr(self.ct, "modules", []):
            if e.id in vars(mod):
                v = vars(mod)[e.id]
                if v is None or isinstance(v, (bool, int, str)):
                    return k(("c", v))
                if isinstance(v, float):
                    return k(("c", "<number>"))  # durations: the model only distinguishes None from a number
        raise Unsupported(f"unbound name {e.id} in {getattr(ctx, 'qual', '?')} (line {e.lineno})")

    def comp_globals(self):
        return getattr(self, "globals", {})

    def e_JoinedStr(self, e, ctx, k):
        vals = [v.value for v in e.values if isinstance(v, ast.FormattedValue)]
        try:
            for v in vals:
                self.expr(v, ctx, lambda r: Node("end", value=None, label="dry"))
        except Unsupported:
            return k(("c", "<text>"))

        def chain(i):
            if i == len(vals):
                return k(("c", "<text>"))
            return self.expr(vals[i], ctx, lambda r: chain(i + 1))
        return chain(0)

    def e_Tuple(self, e, ctx, k):
        def chain(i, acc):
            if i == len(e.elts):
                return k(("tuple", acc))
            return self.expr(e.elts[i], ctx, lambda r: chain(i + 1, acc + [r]))
        return chain(0, [])

    def e_Attribute(self, e, ctx, k):
        def after(o):
            if o[0] == "o":
                info = self.objects.get(o[1])
                if info is None:
                    raise Unsupported(f"unknown object {o[1]}")
                a = info.get("attrs", {}).get(e.attr)
                if a is not None:
                    if isinstance(a, ObjRef):
                        return k(("o", a.name))
                    if isinstance(a, tuple) and a[0] == "field":
                        # mutable field of a model object: read through the model
                        return self.prim_call(a[1] if len(a) > 1 else o[1], f"get:{e.attr}", [], {}, ctx, k)
                    if isinstance(a, tuple) and a[0] == "bound":
                        return k(("bound", a[1], a[2]))
                    return k(("c", a))
                # method reference used as a value is only supported in call position
                return k(("meth", o[1], e.attr))
            if o[0] == "c" and isinstance(o[1], tuple) and o[1][0] == "exc":
                return k(("c", None))  # attributes of a caught exception object (only formatted)
            if o[0] == "rec" and o[1].startswith("Ref:"):
                inner = ast.copy_location(ast.Attribute(value=ast.Name(id="$deref", ctx=ast.Load()), attr=e.attr, ctx=ast.Load()), e)

                def cont(oo):
                    saved = ctx.env.get("$deref")
                    ctx.env["$deref"] = oo
                    try:
                        return self.e_Attribute(inner, ctx, k)
                    finally:
                        if saved is None:
                            ctx.env.pop("$deref", None)
                        else:
                            ctx.env["$deref"] = saved
                return self.deref(o, ctx, cont, "AttributeError")
            if o[0] == "rec":
                fn = self.rec_attrs.get((o[1], e.attr))
                if fn is None:
                    if (o[1], e.attr) in self.rec_methods:
                        return k(("recmeth", o, e.attr))
                    raise Unsupported(f"attribute {e.attr} of {o[1]} record (line {e.lineno})")
                v = fn(o[2])
                if v[0] == "primcall":
                    return self.prim_call(v[1], v[2], list(v[3]), {}, ctx, k)
                return k(v)
            raise Unsupported(f"attribute {e.attr} of dynamic value (line {e.lineno})")
        return self.expr(e.value, ctx, after)

    def e_Subscript(self, e, ctx, k):
        def after_obj(o):
            if o[0] == "o":
                return self.expr(e.slice, ctx, lambda key: self.prim_call(o[1], "__getitem__", [key], {}, ctx, k))
            if o[0] == "tuple" and isinstance(e.slice, ast.Constant):
                return k(o[1][e.slice.value])
            raise Unsupported(f"subscript of dynamic value (line {e.lineno})")
        return self.expr(e.value, ctx, after_obj)

    def e_List(self, e, ctx, k):
        def chain(i, acc):
            if i == len(e.elts):
                return k(("list", acc))
            if isinstance(e.elts[i], ast.Starred):
                return self.expr(e.elts[i].value, ctx, lambda r: chain(i + 1, acc + (list(r[1]) if r[0] in ("list", "tuple") else [])))
            return self.expr(e.elts[i], ctx, lambda r: chain(i + 1, acc + [r]))
        return chain(0, [])

    def e_ListComp(self, e, ctx, k):
        # only `[p.<attr> for p in list(X.values())]`: the set of (sentinels of) the registered workers
        if len(e.generators) == 1 and not e.generators[0].ifs and isinstance(e.elt, ast.Attribute) \
                and isinstance(e.elt.value, ast.Name) and isinstance(e.generators[0].target, ast.Name) \
                and e.elt.value.id == e.generators[0].target.id:
            src, snap = self.values_source(e.generators[0].iter)
            if src is not None:
                def after_obj(o):
                    if o[0] != "o":
                        raise Unsupported("comprehension over dynamic object")
                    return self.prim_call(o[1], "__snapshot__", [], {}, ctx,
                                          lambda r: k(("tuple", [("c", "maskof"), ("c", e.elt.attr), r[2]["mask"]])))
                return self.expr(src, ctx, after_obj)
        raise Unsupported(f"list comprehension (line {e.lineno})")

    def e_DictComp(self, e, ctx, k):
        # `{p.a: p.b for p in list(X.values()) [if ...]}` as it occurs in log messages: one atomic read of the
        # container (the per-element attribute reads are process-local); the value is an opaque text
        if len(e.generators) == 1 and isinstance(e.generators[0].target, ast.Name):
            src, snap = self.values_source(e.generators[0].iter)
            if src is not None:
                def after_obj(o):
                    if o[0] != "o":
                        raise Unsupported("comprehension over dynamic object")
                    return self.prim_call(o[1], "__snapshot__", [], {}, ctx, lambda r: k(("c", "<text>")))
                return self.expr(src, ctx, after_obj)
        raise Unsupported(f"dict comprehension (line {e.lineno})")

    def reduce_over_values(self, fname, gen, ctx, k):
        """sum(...) / all(...) of a generator over `list(X.values())`."""
        if len(gen.generators) != 1 or gen.generators[0].ifs or not isinstance(gen.generators[0].target, ast.Name):
            raise Unsupported("generator expression")
        var = gen.generators[0].target.id
        acc = ctx.local(f"$acc{next(self.tmp)}")
        if fname == "sum":
            init, step = ("c", 0), lambda r: ("bin", "+", ("v", acc), ("ite", r, ("c", 1), ("c", 0)))
        else:
            init, step = ("c", True), lambda r: ("and", [("v", acc), r])
        loop = ast.For(target=ast.Name(id=var, ctx=ast.Store()), iter=gen.generators[0].iter,
                       body=[ast.Expr(ast.Name(id="$body", ctx=ast.Load()))], orelse=[])
        ast.copy_location(loop, gen)
        for n in ast.walk(loop):
            n.lineno = getattr(gen, "lineno", 0)
            n.col_offset = 0
        # compile the loop by hand: body = acc := step(elt)
        outer = self

        class _Body(ast.stmt):
            pass
        marker = _Body()
        marker.lineno = loop.lineno
        loop.body = [marker]
        saved = getattr(self, "s__Body", None)

        def s_body(s_, c2, k2):
            return outer.expr(gen.elt, c2, lambda r: Node("assign", target=acc, value=step(r), next=k2()))
        self.s__Body = s_body
        try:
            node = self.s_For(loop, ctx, lambda: k(("v", acc)))
        finally:
            if saved is None:
                del self.s__Body
        return Node("assign", target=acc, value=init, next=node)

    def e_UnaryOp(self, e, ctx, k):
        if isinstance(e.op, ast.Not):
            return self.expr(e.operand, ctx, lambda r: k(("not", r)))
        if isinstance(e.op, ast.USub):
            return self.expr(e.operand, ctx, lambda r: k(("un", "-", r)))
        raise Unsupported("unary operator")

    def e_BinOp(self, e, ctx, k):
        op = {ast.Add: "+", ast.Sub: "-", ast.Mult: "*"}.get(type(e.op))
        if op is None:
            raise Unsupported(f"binary operator {type(e.op).__name__}")

        def both(a, b):
            if op == "+" and a[0] == "list":
                # readers + worker_sentinels: the argument of multiprocessing.connection.wait()
                if b[0] == "tuple" and b[1] and b[1][0] == ("c", "maskof"):
                    return k(("tuple", [("c", "waitset"), a, b[1][2]]))
                if b[0] == "list":
                    return k(("list", a[1] + b[1]))
            if a[0] == "c" and b[0] == "c" and isinstance(a[1], (int, float)) and isinstance(b[1], (int, float)):
                return k(("c", {"+": a[1] + b[1], "-": a[1] - b[1], "*": a[1] * b[1]}[op]))
            return k(("bin", op, a, b))
        return self.expr(e.left, ctx, lambda a: self.expr(e.right, ctx, lambda b: both(a, b)))

    def e_Compare(self, e, ctx, k):
        if len(e.ops) != 1:
            raise Unsupported("chained comparison")
        op = {ast.Eq: "==", ast.NotEq: "!=", ast.Lt: "<", ast.LtE: "<=", ast.Gt: ">", ast.GtE: ">=",
              ast.Is: "is", ast.IsNot: "isnot", ast.In: "in", ast.NotIn: "notin"}[type(e.ops[0])]
        return self.expr(e.left, ctx,
                         lambda a: self.expr(e.comparators[0], ctx, lambda b: self.compare(op, a, b, ctx, k)))

    def compare(self, op, a, b, ctx, k):
        if op in ("is", "isnot") and (a[0] == "rec" or b[0] == "rec"):
            r, other = (a, b) if a[0] == "rec" else (b, a)
            if other != ("c", None):
                raise Unsupported("identity comparison of records")
            present = r[2].get("?", ("c", True))
            return k(("not", present) if op == "is" else present)
        if op in ("in", "notin") and b[0] == "rec":
            fn = self.rec_attrs.get((b[1], "__contains__"))
            if fn is None:
                raise Unsupported(f"`in` on {b[1]} record")
            r = fn(b[2], a)
            return k(r if op == "in" else ("not", r))
        if op in ("in", "notin"):
            if b[0] == "o":
                def res(r):
                    return k(r if op == "in" else ("not", r))
                return self.prim_call(b[1], "__contains__", [a], {}, ctx, res)
            if b[0] == "list" or b[0] == "tuple":
                r = ("or", [("cmp", "==", a, x) for x in b[1]]) if b[1] else ("c", False)
                return k(r if op == "in" else ("not", r))
            raise Unsupported("`in` on dynamic container")
        if a[0] == "c" and b[0] == "c" and isinstance(a[1], (int, float)) and isinstance(b[1], (int, float)) \
                and not isinstance(a[1], bool) and not isinstance(b[1], bool) and op in ("<", "<=", ">", ">=", "==", "!="):
            return k(("c", {"<": a[1] < b[1], "<=": a[1] <= b[1], ">": a[1] > b[1], ">=": a[1] >= b[1],
                            "==": a[1] == b[1], "!=": a[1] != b[1]}[op]))
        if a[0] == "c" and b[0] == "c" and op in ("is", "isnot") and (a[1] is None or b[1] is None or
                                                                  isinstance(a[1], bool) or isinstance(b[1], bool)):
            same = (a[1] is b[1])
            return k(("c", same if op == "is" else not same))
        if a[0] in ("o", "meth", "bound", "tuple", "list") and b == ("c", None) and op in ("is", "isnot"):
            return k(("c", op == "isnot"))
        if a[0] == "c" and b[0] == "c" and isinstance(a[1], str) and isinstance(b[1], str) and op in ("==", "!="):
            return k(("c", (a[1] == b[1]) == (op == "==")))
        return k(("cmp", op, a, b))

    def e_BoolOp(self, e, ctx, k):
        # value context: materialise through a temp with short-circuit control flow
        tmp = ctx.local(f"$b{next(self.tmp)}")
        join = Lazy(lambda: k(("v", tmp)))
        return self.cond(e, ctx,
                         lambda: Node("assign", target=tmp, value=("c", True), next=join.get()),
                         lambda: Node("assign", target=tmp, value=("c", False), next=join.get()))

    def e_IfExp(self, e, ctx, k):
        tmp = ctx.local(f"$x{next(self.tmp)}")
        join = Lazy(lambda: k(("v", tmp)))
        return self.cond(e.test, ctx,
                         lambda: self.expr(e.body, ctx, lambda r: Node("assign", target=tmp, value=r, next=join.get())),
                         lambda: self.expr(e.orelse, ctx, lambda r: Node("assign", target=tmp, value=r, next=join.get())))

    def e_Call(self, e, ctx, k):
        dotted = _dotted(e.func)
        if dotted in self.opaque or (dotted and any(dotted.startswith(p + ".") for p in self.opaque)):
            # logging / formatting: the call itself has an empty body, but its arguments are evaluated
            # (they may read shared state, e.g. len(self.processes) in a debug message) whenever they
            # are inside the supported subset
            plain = [a for a in e.args if not isinstance(a, (ast.Starred, ast.GeneratorExp))]
            try:
                for a in plain:
                    self.expr(a, ctx, lambda r: Node("end", value=None, label="dry"))
                supported = True
            except Unsupported:
                supported = False
            if not supported:
                return k(("c", None))

            def chain(i):
                if i == len(plain):
                    return k(("c", None))
                return self.expr(plain[i], ctx, lambda r: chain(i + 1))
            return chain(0)
        kwargs_ast = {(kw.arg if kw.arg is not None else "**"): kw.value for kw in e.keywords}

        def with_args(args, kwargs):
            if isinstance(e.func, ast.Attribute):
                def after(o):
                    if o[0] == "o":
                        return self.call_method(ObjRef(o[1]), e.func.attr, args, kwargs, ctx, k)
                    if o[0] == "c" and isinstance(o[1], str):
                        return k(("c", "<text>"))
                    if o[0] == "list" and e.func.attr == "append":
                        return k(("c", None))  # a local list that is only handed to an opaque/primitive call
                    if o[0] == "rec" and o[1].startswith("Ref:"):
                        return self.deref(o, ctx, lambda oo: self.call_method(ObjRef(oo[1]), e.func.attr, args, kwargs, ctx, k),
                                          "AttributeError")
                    if o[0] == "rec":
                        rm = self.rec_methods.get((o[1], e.func.attr))
                        if rm is None:
                            raise Unsupported(f"method {e.func.attr} of {o[1]} record (line {e.lineno})")
                        obj, meth, lead = rm
                        return self.call_method(ObjRef(obj), meth, list(lead(o[2])) + list(args), kwargs, ctx, k)
                    raise Unsupported(f"method call on dynamic value: {ast.unparse(e)} (line {e.lineno})")
                return self.expr(e.func.value, ctx, after)
            if isinstance(e.func, ast.Name):
                return self.call_name(e.func.id, args, kwargs, ctx, k, e)
            raise Unsupported("call of computed function")

        names = list(kwargs_ast)

        def eval_args(i, acc):
            if i == len(e.args):
                return eval_kw(0, acc, {})
            if isinstance(e.args[i], ast.GeneratorExp):
                return eval_args(i + 1, acc + [("c", "<genexp>")])
            if isinstance(e.args[i], ast.Starred):
                def spread(r):
                    if r[0] != "tuple":
                        raise Unsupported("star args of a dynamic sequence")
                    return eval_args(i + 1, acc + list(r[1]))
                return self.expr(e.args[i].value, ctx, spread)
            return self.expr(e.args[i], ctx, lambda r: eval_args(i + 1, acc + [r]))

        def eval_kw(j, acc, kw):
            if j == len(names):
                return with_args(acc, kw)
            return self.expr(kwargs_ast[names[j]], ctx, lambda r: eval_kw(j + 1, acc, dict(kw, **{names[j]: r})))
        return eval_args(0, [])

    def call_name(self, name, args, kwargs, ctx, k, e):
        g = self.comp_globals().get(name)
        if name in ctx.env and ctx.env[name][0] == "o":
            return self.call_method(ObjRef(ctx.env[name][1]), "__call__", args, kwargs, ctx, k)
        if name in ctx.env and ctx.env[name][0] == "rec":
            r = ctx.env[name]
            rm = self.rec_methods.get((r[1], "__call__"))
            if rm is None:
                raise Unsupported(f"call of a {r[1]} record")
            return self.call_method(ObjRef(rm[0]), rm[1], list(rm[2](r[2])) + list(args), kwargs, ctx, k)
        if name in self.ctors and name not in ctx.env:
            return k(self.ctors[name](args, kwargs))
        if name in ctx.env and ctx.env[name][0] in ("bound", "meth"):
            _, o, m = ctx.env[name]
            return self.call_method(ObjRef(o), m, args, kwargs, ctx, k)
        if name in self.ct.funcs and g is None:
            fdef, mod = self.ct.funcs[name]
            self.used_functions.add(name)
            return self.inline(fdef, args, kwargs, ctx, k, name)
        if g is not None and g[0] == "prim":
            return self.prim_call(g[1], g[2], args, kwargs, ctx, k)
        if name in ("sum", "all") and len(e.args) == 1 and isinstance(e.args[0], ast.GeneratorExp):
            return self.reduce_over_values(name, e.args[0], ctx, k)
        if name in ("getattr", "type", "str", "repr"):
            return k(("c", "<opaque>"))
        if name == "len" and len(args) == 1 and args[0][0] == "o":
            return self.prim_call(args[0][1], "__len__", [], {}, ctx, k)
        if name == "isinstance" and len(args) == 2:
            a = args[0]
            if a[0] == "rec":
                fn = self.rec_attrs.get((a[1], "__isinstance__"))
                if fn is None:
                    raise Unsupported(f"isinstance on {a[1]} record")
                return k(fn(a[2], args[1]))
            if a[0] == "c" and args[1][0] == "c" and isinstance(args[1][1], tuple) and args[1][1][0] == "type":
                tyname = args[1][1][1]
                pyty = {"int": int, "str": str, "bool": bool}.get(tyname)
                if pyty is not None:
                    return k(("c", isinstance(a[1], pyty) and not (pyty is int and isinstance(a[1], bool))))
            raise Unsupported("isinstance on non-record")
        if name in ("int", "bool") and len(args) == 1:
            return k(args[0])
        raise Unsupported(f"call of {name}() (line {e.lineno}) in {getattr(ctx, 'qual', '?')}")


class Lazy:
    """Memoised continuation node (join point)."""

    def __init__(self, thunk):
        self.thunk, self.node = thunk, None

    def get(self):
        if self.node is None:
            self.node = self.thunk()
        return self.node


def _dotted(f):
    parts = []
    while isinstance(f, ast.Attribute):
        parts.append(f.attr)
        f = f.value
    if isinstance(f, ast.Name):
        parts.append(f.id)
        return ".".join(reversed(parts))
    return None


def reachable(entry):
    seen, todo, out = set(), [entry], []
    while todo:
        n = todo.pop()
        if n is None or n.id in seen:
            continue
        seen.add(n.id)
        out.append(n)
        for a in ("next", "t", "f"):
            if hasattr(n, a):
                todo.append(getattr(n, a))
        if n.kind == "call":
            todo.extend(n.exc.values())
    return out
