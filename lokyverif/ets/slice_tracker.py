"""Slice x9: two threads race in the real ResourceTracker.ensure_running (C12)."""
import z3

from . import drivers_exec
from .front import ClassTable, Compiler, Ctx, Node, ObjRef, Unsupported
from .mexec import NoopModel, ThreadLockModel
from .model import BV, END, Outcome, State, System, W
from .prims import RECURSIVE_MUTEX, Model, ObsModel
from .prims_exec import as_idx, bit, onehot, zk

T = z3.BoolVal(True)
NT = 3  # tracker slots; tracker k: pid = k + 1, write end of its pipe = k + 1, read end = k + 9


class TrackerKernel(Model):
    """The OS as ensure_running sees it: pipes, the tracker processes, waitpid, the spawn."""
    METHODS = {"pipe": [], "close": [], "waitpid": ["OSError"], "spawn": ["OSError"], "check_alive": []}

    def __init__(self, S):
        S.declare("tk.next", W, None)
        S.declare("tk.alive", W, None)     # tracker processes that are running
        S.declare("tk.wopen", W, None)     # write ends open in this process
        S.declare("tk.ropen", W, 0)        # read ends open in this process
        S.declare("tk.reaped", W, 0)
        S.declare("tk.spawned", W, 0)      # trackers successfully started during the slice
        S.declare("g.closed_live", "bool", False)
        S.declare("g.double_close", "bool", False)
        S.declare("in.spawn_fails", "bool", None)
        S.domain += [z3.ULT(S["tk.alive"], BV(1 << NT)), z3.ULT(S["tk.wopen"], BV(1 << NT)), z3.ULE(S["tk.next"], BV(NT))]

    def result_type(self, method):
        return {"pipe": ("tuple", ["int", "int"]), "spawn": "int", "check_alive": "bool"}.get(method)

    def outcomes(self, method, args, kwargs, t, S):
        nxt, alive, wopen, ropen = S["tk.next"], S["tk.alive"], S["tk.wopen"], S["tk.ropen"]
        if method == "pipe":
            return [Outcome(z3.ULT(nxt, BV(NT)), {"tk.next": nxt + 1, "tk.wopen": wopen | onehot(nxt, NT),
                                                  "tk.ropen": ropen | onehot(nxt, NT)},
                            ("tuple", [nxt + 9, nxt + 1]), None, "ok")]
        if method == "close":
            fd = zk(as_idx(args[0]))
            is_r = z3.UGE(fd, BV(9))
            k = z3.If(is_r, fd - 9, fd - 1)
            was_open = z3.If(is_r, bit(ropen, k, NT), bit(wopen, k, NT))
            return [Outcome(T, {"tk.wopen": z3.If(is_r, wopen, wopen & ~onehot(k, NT)),
                                "tk.ropen": z3.If(is_r, ropen & ~onehot(k, NT), ropen),
                                # closing the last write end of a *live* tracker makes it clean up and exit early
                                "g.closed_live": z3.Or(S["g.closed_live"], z3.And(z3.Not(is_r), bit(alive, k, NT))),
                                "tk.alive": z3.If(z3.Not(is_r), alive & ~onehot(k, NT), alive),
                                "g.double_close": z3.Or(S["g.double_close"], z3.Not(was_open))}, None, None, "ok")]
        if method == "waitpid":
            k = zk(as_idx(args[0])) - 1
            dead = z3.Not(bit(alive, k, NT))
            reaped = bit(S["tk.reaped"], k, NT)
            return [Outcome(z3.And(dead, z3.Not(reaped)), {"tk.reaped": S["tk.reaped"] | onehot(k, NT)}, None, None, "reaped"),
                    Outcome(z3.And(dead, reaped), {}, None, "OSError", "echild")]
            # (waitpid on a live tracker blocks: no enabled outcome)
        if method == "spawn":
            # the tracker reading the pipe created last
            k = nxt - 1
            return [Outcome(z3.Not(S["in.spawn_fails"]), {"tk.alive": alive | onehot(k, NT), "tk.spawned": S["tk.spawned"] + 1}, k + 1, None, "ok"),
                    Outcome(S["in.spawn_fails"], {}, None, "OSError", "fails")]
        if method == "check_alive":
            fd = zk(as_idx(args[0]))
            return [Outcome(T, {}, bit(alive, fd - 1, NT), None, "probe")]
        raise KeyError(method)


class TrackerObj(Model):
    """The ResourceTracker instance: _fd / _pid (None or an int) and the inherited _check_alive()."""

    def __init__(self, S):
        for f in ("_fd", "_pid"):
            S.declare(f"rt.{f}", W, None)
            S.declare(f"rt.{f}?", "bool", None)

    def spec(self, method):
        k, _, f = method.partition(":")
        if k in ("get", "set") and f in ("_fd", "_pid"):
            return []
        return [] if method == "_check_alive" else None

    def result_type(self, method):
        if method == "_check_alive":
            return "bool"
        if method.startswith("get:"):
            return ("rec", "OptInt", {"i": "int", "?": "bool"})
        return None

    def outcomes(self, method, args, kwargs, t, S):
        if method == "_check_alive":
            # stdlib: writes a PROBE line to self._fd; OSError (EPIPE) means the tracker is gone
            return [Outcome(T, {}, bit(S["tk.alive"], S["rt._fd"] - 1, NT), None, "probe")]
        k, _, f = method.partition(":")
        if k == "get":
            return [Outcome(T, {}, ("rec", "OptInt", {"i": S[f"rt.{f}"], "?": S[f"rt.{f}?"]}), None, "read")]
        v = args[0]
        if v is None:
            return [Outcome(T, {f"rt.{f}?": z3.BoolVal(False)}, None, None, "write")]
        val = v[2]["i"] if isinstance(v, tuple) else v
        return [Outcome(T, {f"rt.{f}": zk(val), f"rt.{f}?": T}, None, None, "write")]


class TrackerSlice:
    def __init__(self, n_threads=2):
        import loky.backend.resource_tracker as rtmod
        self.pe = rtmod
        self.mod = rtmod
        self.drivers = drivers_exec
        self.ct = ClassTable([rtmod, drivers_exec])
        self.S = S = State()
        O = self.objects = {}
        O["rtlock"] = {"model": ThreadLockModel("rtlock", RECURSIVE_MUTEX, 1, 1, 1, S)}
        O["kernel"] = {"model": TrackerKernel(S)}
        O["rt"] = {"cls": "ResourceTracker", "model": TrackerObj(S),
                   "attrs": {"_lock": ObjRef("rtlock"), "_fd": ("field",), "_pid": ("field",)}}
        O["osmod"] = {"attrs": {"name": "posix", "pipe": ("bound", "kernel", "pipe"), "close": ("bound", "kernel", "close"),
                                "waitpid": ("bound", "kernel", "waitpid")}}
        O["sysmod"] = {"attrs": {"platform": "linux", "stderr": ObjRef("stderr")}}
        O["stderr"] = {"model": NoopModel(["fileno"])}
        O["spawnmod"] = {"model": NoopModel(["get_executable"])}
        self.obs = ObsModel(S)
        O["obs"] = {"model": self.obs}
        self.comp = c = Compiler(self.ct, O, opaque_calls=["util.debug", "warnings.warn", "signal.pthread_sigmask",
                                                           "util._args_from_interpreter_flags", "sys.stderr.fileno",
                                                           "spawn.get_executable"])
        c.globals = {"os": ("o", "osmod"), "sys": ("o", "sysmod"), "spawn": ("o", "spawnmod"),
                     "spawnv_passfds": ("prim", "kernel", "spawn"), "_HAVE_SIGMASK": ("c", True),
                     "signal": ("c", "<signal>"), "_IGNORED_SIGNALS": ("c", "<sigs>"), "VERBOSE": ("c", False)}
        c.rec_attrs[("OptInt", "__bool__")] = lambda f: f["?"]
        self.sys = System(O, S)
        self.sys._keep = set()
        self.thread_specs = {}
        S.declare("g.ensured", W, 0)
        S.declare("g.bad_return", "bool", False)

        def ensured(args, kwargs, t, S_):
            ok = z3.And(S_["rt._fd?"], bit(S_["tk.alive"], S_["rt._fd"] - 1, NT))
            return [Outcome(T, {"g.ensured": S_["g.ensured"] + 1,
                                "g.bad_return": z3.Or(S_["g.bad_return"], z3.And(z3.Not(ok), z3.Not(S_["in.spawn_fails"])))},
                            None, None, "obs")]
        # not fused: the replay evaluates an observation when the real thread gets there, which must be a scheduled
        # step of its own (a fused one could be overtaken by the next step of another thread)
        self.obs.define("ensured", ensured)
        self.sys.local_types["in.spawn_fails"] = "bool"

    to_python = {"OptInt": lambda w, f: int(f["i"])}
    from_python = []

    def real_class(self, owner):
        return getattr(self.mod, owner)

    def thread(self, name, fn, args):
        self.thread_specs[name] = (fn, list(args))
        fdef, _ = self.ct.funcs[fn]
        end = lambda r: Node("end", value=None, label="end")
        ctx = Ctx(self.comp, "top", {}, end, [], [], [])
        entry = self.comp.inline(fdef, args, {}, ctx, end, fn)
        return self.sys.add_thread(name, 0, entry)

    def finish(self):
        self.sys._keep |= {n for n in self.S.decl if n.startswith(("in.", "g."))}
        self.sys.build()
        self.functions = sorted(self.comp.used_functions)
        return self

    def all_ended(self):
        return z3.And(*[self.S[t.pcvar] == z3.BitVecVal(END, 8) for t in self.sys.threads])

    def patch_real_module(self, world):
        import types
        from .replay_generic import StaticProxy
        m = self.mod
        patches = []

        def patch(obj, name, val):
            patches.append((obj, name, getattr(obj, name)))
            setattr(obj, name, val)
        kern = StaticProxy(world, "kernel")
        patch(m, "os", types.SimpleNamespace(name="posix", pipe=lambda: kern._call("pipe"),
                                             close=lambda fd: kern._call("close", fd),
                                             waitpid=lambda pid, fl: kern._call("waitpid", pid, fl)))
        patch(m, "spawnv_passfds", lambda exe, args, fds: kern._call("spawn", exe, args, fds))
        patch(m, "signal", types.SimpleNamespace(pthread_sigmask=lambda *a: None, SIG_BLOCK=0, SIG_UNBLOCK=1))
        patch(m, "warnings", types.SimpleNamespace(warn=lambda *a, **k: None))
        patch(m, "util", types.SimpleNamespace(debug=lambda *a, **k: None, _args_from_interpreter_flags=lambda: []))
        patch(m, "sys", types.SimpleNamespace(platform="linux", stderr=types.SimpleNamespace(fileno=lambda: 2)))
        return patches
