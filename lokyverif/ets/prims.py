"""Primitive models (the trusted base of E-TS; E-SIM has a Python twin of each).

SemModel = `_multiprocessing.SemLock(kind, value, maxvalue)` as documented in
DESIGN.md section 3: a counter shared by everybody, plus a per-process
(count, last_tid) pair used by `_is_mine()` / `_count()` and by the recursive
mutex.
"""
import z3

from .model import BV, Outcome, W

RECURSIVE_MUTEX, SEMAPHORE = 0, 1


class Model:
    METHODS = {}

    def spec(self, method):
        return self.METHODS.get(method)

    def result_type(self, method):
        return None

    def fused(self, method, t=None):
        """True if the operation may execute atomically with the preceding visible operation of
        the same thread (reads whose result no other thread can change, ghost observations)."""
        return False


class SemModel(Model):
    METHODS = {"acquire": [], "release": ["ValueError", "AssertionError"], "_is_mine": [], "_count": [],
               "_get_value": [], "_is_zero": []}

    def __init__(self, name, kind, value, maxvalue, nprocs, S, count_releases=False):
        self.name, self.kind, self.maxvalue = name, kind, maxvalue
        self.v = S.declare(f"{name}.v", W, value)
        self.cnt = [S.declare(f"{name}.cnt.{p}", W, 0) for p in range(nprocs)]
        self.own = [S.declare(f"{name}.own.{p}", W, 0) for p in range(nprocs)]
        self.hooks = {}
        S.declare("overflow", "bool", False)
        # threads (tids) whose *blocking* acquire of this semaphore may be interrupted once by an asynchronous
        # exception (KeyboardInterrupt delivered to the main thread while it sleeps in sem_wait)
        self.interruptible = set()
        self._S = S

    def allow_interrupt(self, tid):
        if not self.interruptible:
            self.METHODS = dict(self.METHODS, acquire=["KeyboardInterrupt"])
            self._S.declare(f"{self.name}.intr", "bool", False)
        self.interruptible.add(tid)

    def result_type(self, method):
        return {"acquire": "bool", "_is_mine": "bool", "_count": "int", "_get_value": "int",
                "_is_zero": "bool", "release": None}[method]

    def fused(self, method, t=None):
        # _is_mine()/_count() of the calling thread cannot be changed by another thread: if the
        # caller owns the lock nobody else can acquire it, if it does not, nobody can make it the owner
        return method in ("_is_mine", "_count")

    def names(self, p):
        return f"{self.name}.v", f"{self.name}.cnt.{p}", f"{self.name}.own.{p}"

    def hooked(self, method, label, t, S, upd):
        h = self.hooks.get((method, label)) or self.hooks.get((method, None))
        if h:
            upd.update(h(t, S, label))
        return upd

    def outcomes(self, method, args, kwargs, t, S):
        p = t.proc
        vn, cn, on = self.names(p)
        v, cnt, own = S[vn], S[cn], S[on]
        me = BV(t.tid)
        mine = z3.And(cnt != 0, own == me)
        maxed = BV((1 << W) - 1)
        if method == "acquire":
            block = args[0] if len(args) > 0 else kwargs.get("block", kwargs.get("blocking", True))
            timeout = args[1] if len(args) > 1 else kwargs.get("timeout", None)
            if not isinstance(block, bool):
                raise ValueError("acquire(block) must be a constant")
            outs = []
            take = {vn: v - 1, cn: cnt + 1, on: me}  # (count wraps like the C int; only `v` can overflow)
            if self.kind == RECURSIVE_MUTEX:
                outs.append(Outcome(mine, self.hooked("acquire", "reenter", t, S, {cn: cnt + 1, "overflow": z3.Or(S["overflow"], cnt == maxed)}), True, None, "reenter"))
                outs.append(Outcome(z3.And(z3.Not(mine), v != 0), self.hooked("acquire", "ok", t, S, dict(take)), True, None, "ok"))
                blocked = z3.And(z3.Not(mine), v == 0)
            else:
                outs.append(Outcome(v != 0, self.hooked("acquire", "ok", t, S, dict(take)), True, None, "ok"))
                blocked = v == 0
            if not block:
                outs.append(Outcome(blocked, self.hooked("acquire", "wouldblock", t, S, {}), False, None, "wouldblock"))
            if block and t.tid in self.interruptible:
                outs.append(Outcome(z3.And(blocked, z3.Not(S[f"{self.name}.intr"])),
                                    self.hooked("acquire", "interrupt", t, S, {f"{self.name}.intr": z3.BoolVal(True)}),
                                    None, "KeyboardInterrupt", "interrupt"))
            if not block:
                pass
            elif timeout is not None and timeout is not False:
                # an expired timed wait still succeeds if the semaphore is available: the
                # timeout outcome is only enabled while blocked. A z3 Boolean stands for
                # "a timeout was given" (timeout is not None).
                g = blocked if not z3.is_expr(timeout) else z3.And(blocked, timeout)
                outs.append(Outcome(g, self.hooked("acquire", "timeout", t, S, {}), False, None, "timeout"))
            return outs
        if method == "release":
            if self.kind == RECURSIVE_MUTEX:
                return [
                    Outcome(z3.Not(mine), {}, None, "AssertionError", "notowner"),
                    Outcome(z3.And(mine, z3.UGT(cnt, 1)), self.hooked("release", "inner", t, S, {cn: cnt - 1}), None, None, "inner"),
                    Outcome(z3.And(mine, cnt == 1), self.hooked("release", "ok", t, S, {cn: cnt - 1, vn: v + 1}), None, None, "ok"),
                ]
            full = z3.UGE(v, BV(self.maxvalue)) if self.maxvalue < (1 << W) - 1 else z3.BoolVal(False)
            return [
                Outcome(full, {}, None, "ValueError", "toomany"),
                Outcome(z3.Not(full), self.hooked("release", "ok", t, S, {
                    vn: v + 1, cn: cnt - 1, "overflow": z3.Or(S["overflow"], v == maxed)}), None, None, "ok"),
            ]
        if method == "_is_mine":
            return [Outcome(z3.BoolVal(True), {}, mine, None, "read")]
        if method == "_count":
            return [Outcome(z3.BoolVal(True), {}, cnt, None, "read")]
        if method == "_get_value":
            return [Outcome(z3.BoolVal(True), {}, v, None, "read")]
        if method == "_is_zero":
            return [Outcome(z3.BoolVal(True), {}, v == 0, None, "read")]
        raise KeyError(method)


class ObsModel(Model):
    """Ghost observer used by the verification drivers (not part of loky)."""

    def __init__(self, S):
        self.S = S
        self.methods = {}

    def define(self, name, fn, rtype=None, raises=(), fused=False):
        self.methods[name] = (fn, rtype, list(raises), fused)

    def spec(self, method):
        m = self.methods.get(method)
        return None if m is None else m[2]

    def result_type(self, method):
        return self.methods[method][1]

    def fused(self, method, t=None):
        return self.methods[method][3] if len(self.methods[method]) > 3 else False

    def outcomes(self, method, args, kwargs, t, S):
        return self.methods[method][0](args, kwargs, t, S)
