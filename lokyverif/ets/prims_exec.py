"""Primitive models for slices of the executor protocol (M_exec): dict/list/queue/future/pipe/
process-table abstractions over small bounded universes.  The same classes serve E-SIM: the
generic twin evaluates these outcome functions on a concrete state (see replay_generic.py)."""
import z3

from .model import BV, Outcome, W
from .prims import Model

T = z3.BoolVal(True)


def bit(mask, k, n):
    """mask bit k (k may be symbolic)."""
    if isinstance(k, int):
        return z3.Extract(k, k, mask) == 1
    return z3.Or(*[z3.And(k == BV(j), z3.Extract(j, j, mask) == 1) for j in range(n)])


def onehot(k, n):
    if isinstance(k, int):
        return BV(1 << k)
    out = BV(0)
    for j in range(n):
        out = z3.If(k == BV(j), BV(1 << j), out)
    return out


def popcount(mask, n):
    acc = BV(0)
    for j in range(n):
        acc = acc + z3.ZeroExt(W - 1, z3.Extract(j, j, mask))
    return acc


def inrange(k, n):
    return True if isinstance(k, int) else z3.ULT(k, BV(n))


def as_idx(v):
    if isinstance(v, tuple) and v[0] == "rec":
        return v[2]["i"] if "i" in v[2] else v[2]["a"]
    return v


class FieldsModel(Model):
    """Plain attributes of an object: method `get:<f>` / `set:<f>`; reads of fields listed in
    `fused_reads` execute atomically with the previous operation of the same thread (they are only
    written under a lock that the reader holds)."""

    def __init__(self, name, S, fields, fused_reads=()):
        self.name, self.fields = name, fields
        self.fused_reads = fused_reads if isinstance(fused_reads, dict) else set(fused_reads)
        for f, (ty, init) in fields.items():
            if isinstance(ty, tuple) and ty[0] == "ref":
                S.declare(f"{name}.{f}?", "bool", init)
            else:
                S.declare(f"{name}.{f}", "bool" if ty == "bool" else W, init)

    def spec(self, method):
        k, _, f = method.partition(":")
        return [] if k in ("get", "set") and f in self.fields else None

    def result_type(self, method):
        k, _, f = method.partition(":")
        if k == "set":
            return None
        ty = self.fields[f][0]
        if isinstance(ty, tuple) and ty[0] == "ref":
            return ("rec", f"Ref:{ty[1]}", {"?": "bool"})
        return ty

    def fused(self, method, t=None):
        k, _, f = method.partition(":")
        if k != "get":
            return False
        if isinstance(self.fused_reads, dict):
            pred = self.fused_reads.get(f)
            return bool(pred and (pred is True or (t is not None and pred(t))))
        return f in self.fused_reads

    def outcomes(self, method, args, kwargs, t, S):
        k, _, f = method.partition(":")
        ty = self.fields[f][0]
        ref = isinstance(ty, tuple) and ty[0] == "ref"
        var = f"{self.name}.{f}?" if ref else f"{self.name}.{f}"
        if k == "get":
            if ref:
                return [Outcome(T, {}, ("rec", f"Ref:{ty[1]}", {"?": S[var]}), None, "read")]
            return [Outcome(T, {}, S[var], None, "read")]
        v = args[0]
        if ref:
            if v is None:
                nv = z3.BoolVal(False)
            elif isinstance(v, tuple) and v[0] == "o":
                nv = z3.BoolVal(True)
            elif isinstance(v, tuple) and v[0] == "rec":
                nv = v[2]["?"]
            else:
                raise ValueError(f"store of {v!r} into reference field {f}")
            return [Outcome(T, {var: nv}, None, None, "write")]
        if v is None:
            v = 0
        if ty == "bool" and not z3.is_expr(v):
            v = bool(v)
        if ty == "bool" and isinstance(v, tuple):
            v = v[2]["?"] if v[0] == "rec" and "?" in v[2] else True  # truthiness of an object
        return [Outcome(T, {var: v}, None, None, "write")]


class DictModel(Model):
    METHODS = {"__getitem__": ["KeyError"], "__setitem__": [], "__delitem__": ["KeyError"], "pop": [],
               "popitem": ["KeyError"], "__len__": [], "__bool__": [], "__contains__": [], "clear": [],
               "__snapshot__": [], "__itercheck__": ["RuntimeError"]}

    def __init__(self, name, S, n, value_cls, init=0, ghost_check=False):
        self.name, self.n, self.value_cls = name, n, value_cls
        self.m = f"{name}.m"
        S.declare(self.m, W, init)  # only the low n bits are used
        S.domain.append(z3.ULT(S[self.m], BV(1 << n)) if n < W else z3.BoolVal(True))
        self.hooks = {}

    def result_type(self, method):
        rec = ("rec", self.value_cls, {"i": "int"})
        return {"__getitem__": rec, "pop": ("rec", self.value_cls, {"i": "int", "?": "bool"}),
                "popitem": ("tuple", ["int", rec]), "__len__": "int", "__bool__": "bool", "__contains__": "bool",
                "__snapshot__": ("rec", "Snapshot", {"mask": "int", "n": "int"})}.get(method)

    def outcomes(self, method, args, kwargs, t, S):
        n, m = self.n, S[self.m]
        cls = self.value_cls
        if method in ("__getitem__", "__delitem__", "pop", "__contains__", "__setitem__"):
            k = as_idx(args[0])
            has = bit(m, k, n)
            oh = onehot(k, n)
        if method == "__getitem__":
            return [Outcome(z3.Not(has), {}, None, "KeyError", "missing"),
                    Outcome(has, {}, ("rec", cls, {"i": k}), None, "ok")]
        if method == "__setitem__":
            upd = {self.m: m | oh}
            h = self.hooks.get("__setitem__")
            if h:
                upd.update(h(k, args[1], t, S))
            return [Outcome(T, upd, None, None, "ok")]
        if method == "__delitem__":
            return [Outcome(z3.Not(has), {}, None, "KeyError", "missing"),
                    Outcome(has, {self.m: m & ~oh}, None, None, "ok")]
        if method == "pop":
            if len(args) < 2:
                raise ValueError("dict.pop without default is not modelled")
            return [Outcome(T, {self.m: m & ~oh}, ("rec", cls, {"i": k, "?": has}), None, "ok")]
        if method == "popitem":
            outs = [Outcome(m == 0, {}, None, "KeyError", "empty")]
            for j in range(n):
                higher = z3.Extract(n - 1, j + 1, m) == 0 if j < n - 1 else T
                outs.append(Outcome(z3.And(z3.Extract(j, j, m) == 1, higher), {self.m: m & ~BV(1 << j)},
                                    ("tuple", [BV(j), ("rec", cls, {"i": BV(j)})]), None, f"item{j}"))
            return outs
        if method == "__len__":
            return [Outcome(T, {}, popcount(m, n), None, "read")]
        if method == "__bool__":
            return [Outcome(T, {}, m != 0, None, "read")]
        if method == "__contains__":
            return [Outcome(T, {}, has, None, "read")]
        if method == "clear":
            return [Outcome(T, {self.m: BV(0)}, None, None, "ok")]
        if method == "__snapshot__":
            return [Outcome(T, {}, ("rec", "Snapshot", {"mask": m, "n": popcount(m, n)}), None, "read")]
        if method == "__itercheck__":
            same = popcount(m, n) == args[0]
            return [Outcome(z3.Not(same), {}, None, "RuntimeError", "resized"), Outcome(same, {}, None, None, "ok")]
        raise KeyError(method)


class ListModel(Model):
    """A list of distinct small ids (running_work_items): order is irrelevant to the code."""
    METHODS = {"append": [], "remove": ["ValueError"], "__len__": [], "__contains__": [], "__bool__": []}

    def __init__(self, name, S, n, init=0):
        self.name, self.n, self.m = name, n, f"{name}.m"
        S.declare(self.m, W, init)
        S.domain.append(z3.ULT(S[self.m], BV(1 << n)) if n < W else z3.BoolVal(True))
        S.declare(f"{name}.dup", "bool", False)

    def result_type(self, method):
        return {"__len__": "int", "__contains__": "bool", "__bool__": "bool"}.get(method)

    def outcomes(self, method, args, kwargs, t, S):
        n, m = self.n, S[self.m]
        if method == "append":
            k = as_idx(args[0])
            return [Outcome(T, {self.m: m | onehot(k, n),
                                f"{self.name}.dup": z3.Or(S[f"{self.name}.dup"], bit(m, k, n))}, None, None, "ok")]
        if method == "remove":
            k = as_idx(args[0])
            has = bit(m, k, n)
            return [Outcome(z3.Not(has), {}, None, "ValueError", "missing"),
                    Outcome(has, {self.m: m & ~onehot(k, n)}, None, None, "ok")]
        if method == "__len__":
            return [Outcome(T, {}, popcount(m, n), None, "read")]
        if method == "__bool__":
            return [Outcome(T, {}, m != 0, None, "read")]
        if method == "__contains__":
            return [Outcome(T, {}, bit(m, as_idx(args[0]), n), None, "read")]
        raise KeyError(method)


class WorkIdsModel(Model):
    """queue.Queue of work ids: ids are issued in increasing order and consumed FIFO."""
    METHODS = {"put": [], "get": ["Empty"], "qsize": []}

    def __init__(self, name, S, head=0, tail=0):
        self.name = name
        S.declare(f"{name}.head", W, head)
        S.declare(f"{name}.tail", W, tail)
        S.declare(f"{name}.misorder", "bool", False)

    def result_type(self, method):
        return {"get": "int", "qsize": "int"}.get(method)

    def outcomes(self, method, args, kwargs, t, S):
        h, tl = S[f"{self.name}.head"], S[f"{self.name}.tail"]
        if method == "put":
            k = as_idx(args[0])
            return [Outcome(T, {f"{self.name}.tail": tl + 1,
                                f"{self.name}.misorder": z3.Or(S[f"{self.name}.misorder"], zk(k) != tl)}, None, None, "ok")]
        if method == "get":
            block = args[0] if args else kwargs.get("block", True)
            outs = [Outcome(h != tl, {f"{self.name}.head": h + 1}, h, None, "ok")]
            if block is False:
                outs.append(Outcome(h == tl, {}, None, "Empty", "empty"))
            return outs
        if method == "qsize":
            return [Outcome(T, {}, tl - h, None, "read")]
        raise KeyError(method)


def zk(k):
    return BV(k) if isinstance(k, int) else k


PENDING, RUNNING, CANCELLED, CANCELLED_AND_NOTIFIED, FINISHED = range(5)
# outcome tags of a finished future
R_NONE, R_VALUE, R_TASKEXC, R_PICKLING, R_BROKEN, R_TERMINATED, R_SHUTDOWN, R_RUNTIME = range(8)
EXC_TAGS = {"BrokenProcessPool": R_BROKEN, "TerminatedWorkerError": R_TERMINATED, "ShutdownExecutorError": R_SHUTDOWN,
            "PicklingError": R_PICKLING, "RuntimeError": R_RUNTIME}


class FutureTable(Model):
    """concurrent.futures.Future objects indexed by work id."""
    METHODS = {"alloc": [], "set_running_or_notify_cancel": ["RuntimeError"], "cancel": [], "cancelled": [],
               "done": [], "set_result": ["InvalidStateError"], "set_exception": ["InvalidStateError"]}

    def __init__(self, name, S, n, init_states=None):
        self.name, self.n = name, n
        for i in range(n):
            S.declare(f"{name}.st.{i}", W, None if init_states is None else init_states[i])
            S.declare(f"{name}.res.{i}", W, 0)
            S.declare(f"{name}.sets.{i}", W, 0)  # ghost: how many times a result/exception was set
        S.declare(f"{name}.next", W, None)

    def result_type(self, method):
        return {"alloc": ("rec", "Future", {"i": "int"}), "set_running_or_notify_cancel": "bool", "cancel": "bool",
                "cancelled": "bool", "done": "bool"}.get(method)

    def sel(self, S, what, i):
        if isinstance(i, int):
            return S[f"{self.name}.{what}.{i}"]
        out = S[f"{self.name}.{what}.0"]
        for j in range(1, self.n):
            out = z3.If(i == BV(j), S[f"{self.name}.{what}.{j}"], out)
        return out

    def upd(self, S, what, i, val):
        if isinstance(i, int):
            return {f"{self.name}.{what}.{i}": val}
        return {f"{self.name}.{what}.{j}": z3.If(i == BV(j), val, S[f"{self.name}.{what}.{j}"]) for j in range(self.n)}

    def outcomes(self, method, args, kwargs, t, S):
        b3 = lambda v: BV(v)
        if method == "alloc":
            nx = S[f"{self.name}.next"]
            u = {f"{self.name}.next": nx + 1}
            u.update(self.upd(S, "st", nx, b3(PENDING)))
            return [Outcome(z3.ULT(nx, BV(self.n)), u, ("rec", "Future", {"i": nx}), None, "ok")]
        i = as_idx(args[0])
        st = self.sel(S, "st", i)
        if method == "set_running_or_notify_cancel":
            return [Outcome(st == b3(CANCELLED), self.upd(S, "st", i, b3(CANCELLED_AND_NOTIFIED)), False, None, "cancelled"),
                    Outcome(st == b3(PENDING), self.upd(S, "st", i, b3(RUNNING)), True, None, "running"),
                    Outcome(z3.And(st != b3(CANCELLED), st != b3(PENDING)), {}, None, "RuntimeError", "badstate")]
        if method == "cancel":
            can = z3.Or(st == b3(PENDING), st == b3(CANCELLED), st == b3(CANCELLED_AND_NOTIFIED))
            return [Outcome(z3.Not(can), {}, False, None, "toolate"),
                    Outcome(z3.And(can, st == b3(PENDING)), self.upd(S, "st", i, b3(CANCELLED)), True, None, "cancelled"),
                    Outcome(z3.And(can, st != b3(PENDING)), {}, True, None, "already")]
        if method == "cancelled":
            return [Outcome(T, {}, z3.Or(st == b3(CANCELLED), st == b3(CANCELLED_AND_NOTIFIED)), None, "read")]
        if method == "done":
            return [Outcome(T, {}, z3.Or(st == b3(CANCELLED), st == b3(CANCELLED_AND_NOTIFIED), st == b3(FINISHED)), None, "read")]
        if method in ("set_result", "set_exception"):
            bad = z3.Or(st == b3(CANCELLED), st == b3(CANCELLED_AND_NOTIFIED), st == b3(FINISHED))
            if method == "set_result":
                tag = b3(R_VALUE)
            else:
                e = args[1]
                tag = e[2]["t"] if isinstance(e, tuple) and e[0] == "rec" and "t" in e[2] else b3(R_TASKEXC)
                tag = b3(tag) if isinstance(tag, int) else tag
            u = self.upd(S, "st", i, b3(FINISHED))
            u.update(self.upd(S, "res", i, tag))
            sets = self.sel(S, "sets", i)
            u.update(self.upd(S, "sets", i, sets + 1))
            return [Outcome(bad, {}, None, "InvalidStateError", "invalid"), Outcome(z3.Not(bad), u, None, None, "ok")]
        raise KeyError(method)


class PipeState:
    """A pipe carrying whole messages (bounded)."""

    def __init__(self, name, S, cap, fields=(), init_count=0):
        self.name, self.cap, self.fields = name, cap, list(fields)
        S.declare(f"{name}.n", W, init_count)
        S.domain.append(z3.ULE(S[f"{name}.n"], BV(cap)))
        S.declare(f"{name}.closed", "bool", False)
        for j in range(cap):
            for f, sort in self.fields:
                S.declare(f"{name}.{j}.{f}", "bool" if sort == "bool" else W, False if sort == "bool" else 0)


class ConnModel(Model):
    """One end of a pipe (multiprocessing.connection.Connection)."""
    METHODS = {"send_bytes": ["OSError"], "send": ["OSError"], "recv_bytes": ["EOFError"], "recv": ["UnpicklingError"],
               "poll": [], "close": []}

    def __init__(self, pipe, rec_cls=None):
        self.pipe, self.rec_cls = pipe, rec_cls

    def result_type(self, method):
        if method == "poll":
            return "bool"
        if method in ("recv", "recv_bytes") and self.pipe.fields:
            return ("rec", self.rec_cls, dict({f: ("bool" if s == "bool" else "int") for f, s in self.pipe.fields}, **{"?": "bool"}))
        return None

    def outcomes(self, method, args, kwargs, t, S):
        p = self.pipe
        n = S[f"{p.name}.n"]
        if method in ("send_bytes", "send"):
            u = {f"{p.name}.n": n + 1}
            if p.fields:
                msg = args[0]
                for j in range(p.cap):
                    for f, sort in p.fields:
                        cur = S[f"{p.name}.{j}.{f}"]
                        val = msg[2][f]
                        val = (z3.BoolVal(val) if isinstance(val, bool) else val) if sort == "bool" else zk(val)
                        u[f"{p.name}.{j}.{f}"] = z3.If(n == BV(j), val, cur)
            return [Outcome(z3.ULT(n, BV(p.cap)), u, None, None, "ok")]  # blocks while the pipe is full
        if method in ("recv", "recv_bytes"):
            u = {f"{p.name}.n": n - 1}
            res = None
            if p.fields:
                fields = {}
                for f, sort in p.fields:
                    fields[f] = S[f"{p.name}.0.{f}"]
                    for j in range(p.cap - 1):
                        u[f"{p.name}.{j}.{f}"] = S[f"{p.name}.{j + 1}.{f}"]
                fields["?"] = T
                res = ("rec", self.rec_cls, fields)
            outs = [Outcome(n != 0, u, res, None, "ok")]  # blocks while empty
            return outs
        if method == "poll":
            return [Outcome(T, {}, n != 0, None, "read")]
        if method == "close":
            return [Outcome(T, {f"{p.name}.closed": T}, None, None, "ok")]
        raise KeyError(method)
