"""Verification drivers for M_cond (harness code, compiled by the same front end as loky's
own methods; `obs` is a ghost observer model object)."""


def waiter(cond, obs, timeout):
    # `timeout` is either None or a number; the model only distinguishes the two (a symbolic flag)
    cond.acquire()
    r = cond.wait(timeout)
    obs.wait_returned(r)
    cond.release()


def waiter_reentrant(cond, obs, timeout):
    cond.acquire()
    cond.acquire()
    r = cond.wait(timeout)
    obs.wait_returned(r)
    cond.release()
    cond.release()


def waiter_interruptible(cond, obs, timeout):
    # a waiter whose sleep may be interrupted (Ctrl-C in an interactive session): it catches the exception and
    # carries on; the condition must stay usable for everybody else
    cond.acquire()
    try:
        r = cond.wait(timeout)
    except KeyboardInterrupt:
        obs.wait_interrupted()
        cond.release()
        return
    obs.wait_returned(r)
    cond.release()


def notifier(cond, obs, use_all):
    cond.acquire()
    if use_all:
        cond.notify_all()
    else:
        cond.notify()
    cond.release()


def final_notify_all(cond, obs):
    obs.await_all_registered()
    cond.acquire()
    cond.notify_all()
    cond.release()


def single_notify_when_registered(cond, obs):
    obs.await_all_registered()
    cond.acquire()
    cond.notify()
    cond.release()
    obs.notify_done()


def event_waiter(ev, obs, timeout):
    r = ev.wait(timeout)
    obs.event_wait_returned(r)


def event_setter(ev, obs):
    ev.set()
    obs.set_done()


def event_clearer(ev, obs):
    ev.clear()


def event_prober(ev, obs):
    r = ev.is_set()
    obs.is_set_returned(r)
