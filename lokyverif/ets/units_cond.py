"""C14 units: bounded model checking of Condition/Event translated from the current source,
with every trace (witness or counterexample) replayed on the real code (E-SIM)."""
import hashlib
import inspect
import itertools
import time

import z3

from ..common import HELD, INCONCLUSIVE, VIOLATION, UnitResult, fn_id, write_replay
from . import drivers_cond
from .bmc import BMC
from .front import Unsupported
from .mcond import CondScenario
from .model import END
from .replay_cond import Divergence, Sched, build_real_condition, with_sched_fields


def _popcount(bools, w=4):
    acc = z3.BitVecVal(0, w)
    for b in bools:
        acc = acc + z3.If(b, z3.BitVecVal(1, w), z3.BitVecVal(0, w))
    return acc


class CondQueries:
    def __init__(self, sc, mode):
        self.sc, self.mode = sc, mode
        S = sc.S
        W = sc.waiter_tids
        ret_true = [S[f"g.ret.{t}"] == 1 for t in W]
        ret_false = [S[f"g.ret.{t}"] == 2 for t in W]
        self.safety = {
            "A1 an assert inside wait/notify/notify_all failed or an exception escaped":
                z3.Or(S["fail"] != 0, S["overflow"]),
            "A4 wait() returned without the lock / with a different recursion count": S["g.badlock"],
            "A5 wait() returned False although its timeout did not expire":
                z3.Or(*[z3.And(ret_false[i], z3.Not(S[f"g.to.{t}"])) for i, t in enumerate(W)]),
            "A3 more waiters woken (wait() returned True) than notifications issued":
                z3.UGT(_popcount(ret_true), S["g.tokens"]),
            "A6 after the burst the condition is not back in a reusable state":
                z3.And(sc.all_ended(), z3.Or(S["waitsem.sl.v"] != 0, S["sleeping.sl.v"] != S["woken.sl.v"],
                                             S["lock.sl.v"] != 1)),
        }
        self.stuck = {}
        if mode == "final_notify_all":
            self.stuck["A2 a waiter registered before a completed notify_all (timeout not fired) is still blocked, "
                       "or some call never returns"] = sc.some_not_ended()
        elif mode == "single_notify":
            done = [S[f"g.ret.{t}"] != 0 for t in W]
            self.stuck["A3 notify() found registered sleepers but no waiter ever left wait()"] = \
                z3.And(S["g.notified"], z3.Not(z3.Or(*done)))
            no_to = z3.And(*[z3.Not(S[f"in.timeout.{t}"]) for t in W if f"in.timeout.{t}" in S.pre])
            self.stuck["A3 without any timeout, notify() did not wake exactly one waiter"] = \
                z3.And(S["g.notified"], no_to, _popcount(ret_true) != 1)
            # the full reading of "does wake one if some waiter's timeout is not expiring": other waiters may time out
            # (or be interrupted) at any instant around the notify; a registered waiter that neither has a timeout
            # nor was interrupted must not be left asleep by a completed notify() that found sleepers
            steady = [z3.And(z3.Not(S[f"in.timeout.{t}"]) if f"in.timeout.{t}" in S.pre else z3.BoolVal(False),
                             S[f"g.ret.{t}"] != 3) for t in W]
            self.stuck["A3 notify() completed while a waiter without timeout was asleep, yet no waiter was woken "
                       "(the notification was consumed by a waiter that timed out at the same time)"] = \
                z3.And(S["g.notified"], _popcount(ret_true) == 0, z3.Or(*steady))
            F = [t for t in sc.sys.threads if t.name == "F"][0]
            self.stuck["A2 notify() itself never returned"] = S[F.pcvar] != z3.BitVecVal(END, 8)
        self.witness = z3.And(sc.all_ended(), z3.Or(*ret_true)) if mode == "final_notify_all" else \
            z3.And(S["g.notified"], z3.Or(*ret_true))


def observe(sc, cfg, inputs, trace):
    """Replay `trace` on the real code; return the observation dict (same keys as the model state)."""
    sched = Sched(trace)
    threads = sc.sys.threads
    procs = {t.name: t.proc for t in threads}
    tids = {t.name: t.tid for t in threads}
    names = {"lock": "lock", "sleeping": "sleeping", "woken": "woken", "waitsem": "waitsem"}
    cond = build_real_condition(sched, names, cfg.get("lock_cls", "RLock"), procs, tids, comp=sc.comp)
    g = {"slept": set(), "reg": set(), "to": set(), "ret": {}, "tokens": 0, "badlock": False, "notified": False}
    wt = {t.name for t in threads if t.name.startswith("W")}
    re_ = cfg.get("reentrant")
    depth_of = {t.name: (2 if (re_ is True or (re_ == "mixed" and t.tid == 1)) else 1) for t in threads}
    me = sched.tname

    def h_sleep():
        if me() in wt:
            g["slept"].add(me())

    def h_lockrel():
        if me() in wt and me() in g["slept"]:
            g["reg"].add(me())

    def h_to():
        if me() in wt:
            g["to"].add(me())

    def h_tok():
        g["tokens"] += 1
    cond._sleeping_count._semlock.hooks[("release", "ok")] = h_sleep
    cond._lock._semlock.hooks[("release", "ok")] = h_lockrel
    cond._wait_semaphore._semlock.hooks[("acquire", "timeout")] = h_to
    cond._wait_semaphore._semlock.hooks[("release", "ok")] = h_tok

    class Obs:
        def wait_returned(self, r):
            sl = cond._lock._semlock
            if sl.kind == 0:
                holds = sl._mine() and sl._count() == depth_of[me()]
            else:
                holds = sl.v == 0 and sl._mine()
            g["ret"][me()] = 1 if r else 2
            g["badlock"] = g["badlock"] or not holds

        def wait_interrupted(self):
            sl = cond._lock._semlock
            if sl.kind == 0:
                holds = sl._mine() and sl._count() == depth_of[me()]
            else:
                holds = sl.v == 0 and sl._mine()
            g["ret"][me()] = 3
            g["badlock"] = g["badlock"] or not holds

        def await_all_registered(self):
            sched.request("obs", "await_all_registered", lambda: ["obs"] if wt <= g["reg"] else [])
            sched.done()

        def notify_done(self):
            g["notified"] = True
    obs = Obs()
    bodies = {}
    for t in threads:
        if t.name.startswith("W"):
            to = inputs.get(f"in.timeout.{t.tid}")
            fn = drivers_cond.waiter_reentrant if depth_of[t.name] == 2 else drivers_cond.waiter
            if cfg.get("interrupt") and t.tid == 1:
                fn = drivers_cond.waiter_interruptible
                cond._wait_semaphore._semlock.interruptible.add(t.name)
            bodies[t.name] = (lambda to=to, fn=fn: fn(cond, obs, 1.0 if to else None))
        elif t.name.startswith("N"):
            j = int(t.name[1:]) - 1
            ua = inputs.get(f"in.all.{j}")
            bodies[t.name] = (lambda ua=ua: drivers_cond.notifier(cond, obs, bool(ua)))
        elif t.name == "F":
            f = drivers_cond.final_notify_all if cfg.get("final") == "notify_all" else \
                drivers_cond.single_notify_when_registered
            bodies[t.name] = (lambda f=f: f(cond, obs))
    parked, finished = sched.run(bodies)
    if sched.error is not None:
        raise sched.error
    o = {}
    for nm, obj in (("lock", cond._lock), ("sleeping", cond._sleeping_count), ("woken", cond._woken_count),
                    ("waitsem", cond._wait_semaphore)):
        o[f"{nm}.sl.v"] = obj._semlock.v
    for t in threads:
        if t.name in wt:
            o[f"g.ret.{t.tid}"] = g["ret"].get(t.name, 0)
            o[f"g.to.{t.tid}"] = t.name in g["to"]
            o[f"g.reg.{t.tid}"] = t.name in g["reg"]
    o["g.tokens"], o["g.badlock"], o["g.notified"] = g["tokens"], g["badlock"], g["notified"]
    errors = {n: e for n, e in finished.items() if e not in (None, "aborted")}
    o["failed"] = bool(errors)
    o["errors"] = {n: f"{type(e).__name__}: {e}" for n, e in errors.items()}
    o["ended"] = {t.name: finished.get(t.name, "x") is None for t in threads}
    o["stuck"] = all(not en for (_, _, en) in parked.values()) and \
        all((t.name in parked) or (t.name in finished) for t in threads)
    o["parked"] = {n: f"{ob}.{m}" for n, (ob, m, en) in parked.items()}
    return o


def agree(model_state, obs, sc):
    """Compare the model's state after the trace with the real code's state."""
    diffs = []
    for k, v in obs.items():
        if k in model_state and k not in ("failed",):
            mv = model_state[k]
            if isinstance(v, bool):
                ok = bool(mv) == v
            else:
                ok = mv == v
            if not ok:
                diffs.append(f"{k}: model={mv} real={v}")
    if (model_state["fail"] != 0) != obs["failed"]:
        diffs.append(f"fail: model={model_state['fail']} real={obs['errors']}")
    for t in sc.sys.threads:
        m_end = model_state[t.pcvar] == END
        if m_end != obs["ended"][t.name] and not obs["failed"]:
            diffs.append(f"{t.name} ended: model={m_end} real={obs['ended'][t.name]}")
    return diffs


class EventQueries:
    def __init__(self, sc, mode):
        S = sc.S
        self.safety = {
            "A1 an assert failed or an exception escaped inside Event/Condition code": z3.Or(S["fail"] != 0, S["overflow"]),
            "A7 Event.wait()/is_set() returned a value different from the flag at its return": S["g.badret"],
        }
        self.stuck = {}
        clear = any(t.name.startswith("C") for t in sc.sys.threads)
        if not clear:
            self.stuck["A7 set() without clear(): a waiter (or set itself) is still blocked"] = z3.Not(sc.all_ended())
        else:
            self.stuck["A7 set()/clear()/is_set() blocked for ever"] = \
                z3.Not(z3.And(sc.ended("S"), sc.ended("C"), sc.ended("P")))
            # a waiter with a timeout can never stay blocked either
            for t in sc.sys.threads:
                if t.name.startswith("W"):
                    self.stuck[f"A7 {t.name} has a timeout but is blocked for ever"] = \
                        z3.And(S[f"in.timeout.{t.tid}"], S[t.pcvar] != z3.BitVecVal(END, 8)) \
                        if f"in.timeout.{t.tid}" in S.pre else z3.BoolVal(False)
        self.witness = z3.And(sc.all_ended(), z3.Or(*[S[f"g.ret.{t}"] == 1 for t in sc.waiter_tids]))


def observe_event(sc, cfg, inputs, trace):
    import loky.backend.synchronize as sy
    from .replay_cond import TwinSemLock
    sched = Sched(trace)
    threads = sc.sys.threads
    procs = {t.name: t.proc for t in threads}
    tids = {t.name: t.tid for t in threads}
    names = {"lock": "lock", "sleeping": "sleeping", "woken": "woken", "waitsem": "waitsem"}
    cond = build_real_condition(sched, names, "Lock", procs, tids, comp=sc.comp)
    EvCls = with_sched_fields(sy.Event, sched, "ev", sc.comp)
    ev = EvCls.__new__(EvCls)
    ev._cond = cond
    flag = sy.Semaphore.__new__(sy.Semaphore)
    flag._semlock = TwinSemLock(sched, "flag.sl", 1, 0, 15, procs, tids)
    flag._make_methods()
    ev._flag = flag
    g = {"ret": {}, "badret": False, "setdone": False}
    me = sched.tname

    class Obs:
        def event_wait_returned(self, r):
            g["ret"][me()] = 1 if r else 2
            g["badret"] = g["badret"] or (bool(r) != (flag._semlock.v == 1))
        is_set_returned = event_wait_returned

        def set_done(self):
            g["setdone"] = True
    obs = Obs()
    bodies = {}
    for t in threads:
        if t.name.startswith("W"):
            to = inputs.get(f"in.timeout.{t.tid}")
            bodies[t.name] = (lambda to=to: drivers_cond.event_waiter(ev, obs, 1.0 if to else None))
        elif t.name.startswith("S"):
            bodies[t.name] = lambda: drivers_cond.event_setter(ev, obs)
        elif t.name.startswith("C"):
            bodies[t.name] = lambda: drivers_cond.event_clearer(ev, obs)
        else:
            bodies[t.name] = lambda: drivers_cond.event_prober(ev, obs)
    parked, finished = sched.run(bodies)
    if sched.error is not None:
        raise sched.error
    o = {}
    for nm, obj in (("lock", cond._lock), ("sleeping", cond._sleeping_count), ("woken", cond._woken_count),
                    ("waitsem", cond._wait_semaphore), ("flag", flag)):
        o[f"{nm}.sl.v"] = obj._semlock.v
    for t in threads:
        o[f"g.ret.{t.tid}"] = g["ret"].get(t.name, 0)
    o["g.badret"], o["g.setdone"] = g["badret"], g["setdone"]
    errors = {n: e for n, e in finished.items() if e not in (None, "aborted")}
    o["failed"] = bool(errors)
    o["errors"] = {n: f"{type(e).__name__}: {e}" for n, e in errors.items()}
    o["ended"] = {t.name: finished.get(t.name, "x") is None for t in threads}
    o["parked"] = {n: f"{ob}.{m}" for n, (ob, m, en) in parked.items()}
    return o


def cond_unit(prop, name, cfg, K, timeout_s=900):
    """One scenario: witness (must be sat, replayed), completeness of K, safety and stuck queries."""
    import loky.backend.synchronize as sy
    t0 = time.time()
    res = UnitResult(name=name, engine="E-TS", status=INCONCLUSIVE,
                     bounds=f"{cfg}; K={K} fused steps",
                     assumptions=["C SemLock modelled as in DESIGN.md section 3 (counter + per-process count/last_tid; "
                                  "an expired timed acquire still succeeds if the semaphore is available)",
                                  "threads of one process unless same_process=False; timeouts are a transition enabled "
                                  "whenever the wait is blocked (every expiry instant)"])
    try:
        kind = cfg.get("kind", "cond")
        cfg = {k: v for k, v in cfg.items() if k != "kind"}
        if kind == "event":
            from .mcond import EventScenario
            sc = EventScenario(**cfg)
            Q = EventQueries(sc, None)
            observe_fn = observe_event
        else:
            sc = CondScenario(**cfg)
            mode = "final_notify_all" if cfg.get("final") == "notify_all" else "single_notify"
            Q = CondQueries(sc, mode)
            observe_fn = observe
        res.functions = [f"loky.backend.synchronize.{f}@{_h(sy, f)}" for f in sc.functions]
        res.transitions = len(sc.sys.transitions) * K
        res.states = sum(len(t.locs) + 3 for t in sc.sys.threads) * (K + 1)
        b = BMC(sc.sys, K, timeout_s=timeout_s)
        inputs_of = lambda m: {n: z3.is_true(m.eval(b.vars[0][n], model_completion=True))
                               for n in sc.S.decl if n.startswith("in.")}
        for n, v in (cfg.get("fixed") or {}).items():
            pass

        def replay(r):
            inp = inputs_of(r.model)
            inp.update({k: bool(v) for k, v in (cfg.get("fixed") or {}).items()})
            steps = [e for e in r.trace if not e.get("idle")]
            obs = observe_fn(sc, cfg, inp, steps)
            ms = b.state_at(r.model, len(steps))
            return inp, steps, obs, ms

        # 1. properties (a replayed counterexample is reported whatever the witness says)
        for kind, table in (("safety", Q.safety), ("stuck", Q.stuck)):
            if not table:
                continue
            bad = z3.Or(*table.values())
            r = b.safety(bad) if kind == "safety" else b.stuck(bad)
            res.queries += 1
            res.solver_s += r.seconds
            if r.verdict == "unsat":
                res.discharged += 1
                continue
            if r.verdict != "sat":
                res.detail = f"{kind} query {r.verdict} after {r.seconds:.0f}s"
                return _fin(res, t0)
            # which clause? evaluate on the model at the violating step
            inp, steps, obs, ms = replay(r)
            d = agree(ms, obs, sc)
            if d:
                res.detail = f"counterexample does not replay on the real code (model/translator error): {d[:4]}"
                return _fin(res, t0)
            k = len(steps)
            which = [txt for txt, pred in table.items()
                     if z3.is_true(r.model.eval(b.at(pred, k), model_completion=True))]
            res.status = VIOLATION
            res.counterexample = {"violated": which, "inputs": inp,
                                  "trace": [f"{e['thread']}:{e['label']}" for e in steps],
                                  "real_state_after_replay": {k2: v for k2, v in obs.items()}}
            res.signature = f"{name}:{which}"
            res.replay = write_replay(prop, name, {"property": prop, "engine": "E-TS", "model": "M_cond", "cfg": dict(cfg, kind=kind),
                                                   "inputs": inp, "trace": steps, "violated": which,
                                                   "observed": obs})
            res.detail = f"VIOLATED {which}; trace of {k} steps reproduced on the real Condition code"
            return _fin(res, t0)
        # 2. witness: the scenario can run to completion with a waiter woken (vacuity guard), replayed
        r = b.reach(Q.witness)
        res.queries += 1
        res.solver_s += r.seconds
        if r.verdict != "sat":
            res.detail = f"witness query {r.verdict}: scenario vacuous or K too small"
            return _fin(res, t0)
        inp, steps, obs, ms = replay(r)
        d = agree(ms, obs, sc)
        if d:
            res.detail = f"witness trace diverges between model and real code: {d[:4]}"
            return _fin(res, t0)
        res.discharged += 1
        res.traces_validated += 1
        res.witness_ok = True
        res.samples.append({"witness_trace": [f"{e['thread']}:{e['label']}" for e in steps], "inputs": inp})
        # 3. K is a completeness threshold: no run is still going after K steps
        any_enabled = z3.Or(*[tr.guard for tr in sc.sys.transitions])
        r = b.solve(lambda bb: bb.at(any_enabled, bb.K), [])
        res.queries += 1
        res.solver_s += r.seconds
        if r.verdict != "unsat":
            res.detail = f"unwinding check {r.verdict}: some run is longer than K={K}"
            return _fin(res, t0)
        res.discharged += 1
        res.status = HELD
        res.detail = (f"{len(sc.sys.transitions)} transitions, {len(sc.S.decl)} state vars, K={K}: witness sat+replayed, "
                      f"unwinding ok, {len(Q.safety)} safety + {len(Q.stuck)} stuck clauses unsat")
        return _fin(res, t0)
    except Unsupported as e:
        res.detail = f"unsupported construct in translated source: {e}"
        return _fin(res, t0)
    except Divergence as e:
        res.detail = f"replay diverged (model/translator error): {e}"
        return _fin(res, t0)


def _fin(res, t0):
    res.wall_s = time.time() - t0
    return res


def _h(mod, qual):
    obj = mod
    for p in qual.split("."):
        obj = getattr(obj, p)
    return hashlib.sha256(inspect.getsource(obj).encode()).hexdigest()[:12]


def replay_file(rp):
    cfg = dict(rp["cfg"])
    kind = cfg.pop("kind", "cond")
    if kind == "event":
        from .mcond import EventScenario
        sc = EventScenario(**cfg)
        obs = observe_event(sc, cfg, rp["inputs"], rp["trace"])
    else:
        sc = CondScenario(**cfg)
        obs = observe(sc, cfg, rp["inputs"], rp["trace"])
    print("real state after replay:", obs)
    return 0
