"""Generic E-SIM: replay a solver trace of a slice on the real loky functions.

The real (unmodified) loky methods run in real threads against proxy objects that mirror
the compiler's binding tables: an attribute/method that the compiler resolves to a translated
loky method is executed as the *real* Python function of the real class; one that it resolves
to a primitive is executed by the very same primitive model, evaluated on a concrete state,
under a baton scheduler that follows the trace.  What the replay validates is therefore the
translation (control flow, order and arguments of the visible operations) and the reported
failure; the primitive semantics are shared with the model (trusted base).
"""
import functools
import queue as _queue
import threading

import z3

from .front import ObjRef
from .replay_cond import Divergence, Sched, _Abort


class InvalidStateError(Exception):
    pass


EXC_CLASSES = {"KeyError": KeyError, "ValueError": ValueError, "RuntimeError": RuntimeError, "TypeError": TypeError,
               "AssertionError": AssertionError, "Full": _queue.Full, "Empty": _queue.Empty, "EOFError": EOFError,
               "OSError": OSError, "AttributeError": AttributeError, "IndexError": IndexError,
               "UnpicklingError": Exception}
try:
    from concurrent.futures import InvalidStateError as _ISE
    EXC_CLASSES["InvalidStateError"] = _ISE
except ImportError:  # pragma: no cover
    EXC_CLASSES["InvalidStateError"] = InvalidStateError


class World:
    def __init__(self, slice_, init_state, sched, real_module):
        self.sl, self.sched, self.mod = slice_, sched, real_module
        self.S = slice_.S
        self.state = dict(init_state)
        self.objects = slice_.objects
        self.comp = slice_.comp
        self.threads = {t.name: t for t in slice_.sys.threads}
        self.lock = threading.Lock()

    # concrete view of the state for the primitive models ------------------------------
    def __getitem__(self, name):
        sort, _ = self.S.decl[name]
        v = self.state[name]
        return z3.BoolVal(bool(v)) if sort == "bool" else z3.BitVecVal(int(v), sort)

    def conc(self, e):
        if not z3.is_expr(e):
            return e
        x = z3.simplify(e)
        if z3.is_true(x):
            return True
        if z3.is_false(x):
            return False
        if z3.is_bv_value(x):
            return x.as_long()
        raise Divergence(f"primitive model produced a non-constant on a concrete state: {x}")

    def conc_value(self, v):
        if isinstance(v, tuple) and v[0] == "rec":
            return ("rec", v[1], {f: self.conc(x) for f, x in v[2].items()})
        if isinstance(v, tuple) and v[0] == "tuple":
            return ("tuple", [self.conc_value(x) for x in v[1]])
        return self.conc(v)

    # values between the real code and the models --------------------------------------
    def to_python(self, v):
        if isinstance(v, tuple) and v[0] == "rec":
            cls, f = v[1], v[2]
            if "?" in f and not f["?"]:
                return None
            conv = self.sl.to_python.get(cls)
            if conv is not None:
                return conv(self, f)
            if cls.startswith("Ref:"):
                return StaticProxy(self, cls[4:])
            return RecProxy(self, cls, f)
        if isinstance(v, tuple) and v[0] == "tuple":
            return tuple(self.to_python(x) for x in v[1])
        if isinstance(v, tuple) and v[0] == "o":
            return StaticProxy(self, v[1])
        return v

    def from_python(self, x):
        if isinstance(x, StaticProxy):
            return ("o", x._name)
        if isinstance(x, RecProxy):
            return ("rec", x._cls, dict(x._fields))
        if isinstance(x, (bool, int, str, float)) or x is None:
            return x
        if isinstance(x, list) and all(isinstance(e, (StaticProxy, RecProxy)) for e in x):
            # the argument of multiprocessing.connection.wait(): readers + sentinels
            objs = [("o", e._name) for e in x if isinstance(e, StaticProxy)]
            mask = 0
            for e in x:
                if isinstance(e, RecProxy) and e._cls == "Sentinel":
                    mask |= 1 << int(e._fields["i"])
            return ("tuple", ["waitset", ("list", objs), mask])
        for ty, conv in self.sl.from_python:
            if isinstance(x, ty):
                return conv(self, x)
        if isinstance(x, BaseException):
            from .prims_exec import EXC_TAGS, R_TASKEXC
            return ("rec", "Exc", {"t": EXC_TAGS.get(type(x).__name__, R_TASKEXC), "?": True})
        return "<opaque>"

    def ev_rexpr(self, r, fields=None):
        """Concrete evaluation of a pure rexpr produced by the record tables."""
        k = r[0]
        if k == "c":
            return r[1]
        if k == "v":
            return self.state[r[1]]
        if k == "o":
            return r
        if k == "rec":
            return ("rec", r[1], {f: self.ev_rexpr(x) for f, x in r[2].items()})
        if k == "cmp":
            a, b = self.ev_rexpr(r[2]), self.ev_rexpr(r[3])
            return {"==": a == b, "!=": a != b, "<": a < b, "<=": a <= b, ">": a > b, ">=": a >= b}[r[1]]
        if k == "not":
            return not self.ev_rexpr(r[1])
        if k == "ite":
            return self.ev_rexpr(r[2]) if self.ev_rexpr(r[1]) else self.ev_rexpr(r[3])
        if k == "bit":
            return bool((self.ev_rexpr(r[1]) >> r[2]) & 1)
        raise Divergence(f"cannot evaluate {r!r} concretely")

    # primitive operations ---------------------------------------------------------------
    def op(self, obj, method, args, kwargs):
        model = self.objects[obj]["model"]
        t = self.threads[threading.current_thread().name]
        margs = [self.from_python(a) for a in args]
        mkw = {k: self.from_python(v) for k, v in kwargs.items()}

        def outcomes():
            return model.outcomes(method, margs, mkw, t, self)

        def enabled():
            with self.lock:
                return [o.label for o in outcomes() if self.conc(o.guard)]
        if model.fused(method, t):
            with self.lock:
                outs = [o for o in outcomes() if self.conc(o.guard)]
                if len(outs) != 1:
                    raise Divergence(f"fused primitive {obj}.{method} has {len(outs)} enabled outcomes")
                return self.apply(outs[0])
        lab = self.sched.request(obj, method, enabled)
        try:
            with self.lock:
                o = [x for x in outcomes() if x.label == lab and self.conc(x.guard)]
                if not o:
                    raise Divergence(f"outcome {lab} of {obj}.{method} not enabled at replay time")
                res = self.apply(o[0], raise_exc=False)
        finally:
            self.sched.done()
        if o[0].exc is not None:
            raise EXC_CLASSES.get(o[0].exc, RuntimeError)(f"model outcome {lab}")
        return res

    def apply(self, o, raise_exc=True):
        new = {k: self.conc(v) for k, v in o.updates.items() if k in self.S.decl}
        res = self.conc_value(o.result) if o.result is not None else None
        self.state.update(new)
        if o.exc is not None and raise_exc:
            raise EXC_CLASSES.get(o.exc, RuntimeError)("model outcome")
        return self.to_python(res)


class StaticProxy:
    """Stands for the model object `name` in the real code."""

    def __init__(self, world, name):
        object.__setattr__(self, "_w", world)
        object.__setattr__(self, "_name", name)

    def _info(self):
        return self._w.objects[self._name]

    def _call(self, method, *args, **kwargs):
        w, info = self._w, self._info()
        a = info.get("attrs", {}).get(method)
        if isinstance(a, tuple) and a[0] == "bound":
            return StaticProxy(w, a[1])._call(a[2], *args, **kwargs)
        cls = info.get("cls")
        if cls:
            fdef, owner = w.comp.ct.method(cls, method)
            if fdef is not None:
                real = getattr(w.sl.real_class(owner), method)
                real = getattr(real, "__func__", real)
                return real(self, *args, **kwargs)
        model = info.get("model")
        if model is not None and model.spec(method) is not None:
            return w.op(self._name, method, args, kwargs)
        raise Divergence(f"real code calls {self._name}.{method}, which the model does not know")

    def __getattr__(self, attr):
        w, info = self._w, self._info()
        a = info.get("attrs", {}).get(attr)
        if a is not None:
            if isinstance(a, ObjRef):
                return StaticProxy(w, a.name)
            if isinstance(a, tuple) and a[0] == "field":
                return w.op(a[1] if len(a) > 1 else self._name, f"get:{attr}", [], {})
            if isinstance(a, tuple) and a[0] == "bound":
                return functools.partial(StaticProxy(w, a[1])._call, a[2])
            if isinstance(a, tuple) and a[0] == "type":
                return EXC_CLASSES[a[1]]
            return a
        return functools.partial(self._call, attr)

    def __setattr__(self, attr, value):
        info = self._info()
        a = info.get("attrs", {}).get(attr)
        if isinstance(a, tuple) and a[0] == "field":
            self._w.op(a[1] if len(a) > 1 else self._name, f"set:{attr}", [value], {})
            return
        if isinstance(a, ObjRef) and isinstance(value, StaticProxy) and value._name == a.name:
            return  # `self.x += [...]` rebinding the same container
        raise Divergence(f"real code stores to {self._name}.{attr}, which the model does not know")

    def __enter__(self):
        return self._call("__enter__")

    def __exit__(self, *a):
        return self._call("__exit__", None, None, None)

    def __len__(self):
        return self._call("__len__")

    def __bool__(self):
        model = self._info().get("model")
        if model is not None and model.spec("__bool__") is not None:
            return bool(self._call("__bool__"))
        return True

    def __contains__(self, k):
        return self._call("__contains__", k)

    def __getitem__(self, k):
        return self._call("__getitem__", k)

    def __setitem__(self, k, v):
        return self._call("__setitem__", k, v)

    def __delitem__(self, k):
        return self._call("__delitem__", k)

    def __iadd__(self, items):
        for x in items:
            self._call("append", x)
        return self

    def __eq__(self, other):
        return isinstance(other, StaticProxy) and other._name == self._name

    def __hash__(self):
        return hash(self._name)

    def values(self):
        snap = self._call("__snapshot__")
        n = self._w.comp.unroll[self._name]
        cls = self._info()["model"].value_cls
        mask = snap._fields["mask"]
        return [self._w.to_python(("rec", cls, {"i": i})) for i in range(n) if (mask >> i) & 1]

    def items(self):
        # only evaluated inside debug-message f-strings (logging is opaque in the model): no visible operation
        return []

    def __call__(self, *a, **k):
        return self._call("__call__", *a, **k)


class RecProxy:
    def __init__(self, world, cls, fields):
        object.__setattr__(self, "_w", world)
        object.__setattr__(self, "_cls", cls)
        object.__setattr__(self, "_fields", dict(fields))

    def _consts(self):
        return {f: ("c", v) for f, v in self._fields.items()}

    def _meth(self, name, *args, **kwargs):
        obj, meth, lead = self._w.comp.rec_methods[(self._cls, name)]
        leadv = [self._w.ev_rexpr(x) for x in lead(self._consts())]
        return StaticProxy(self._w, obj)._call(meth, *(leadv + list(args)), **kwargs)

    def __getattr__(self, attr):
        w = self._w
        fn = w.comp.rec_attrs.get((self._cls, attr))
        if fn is not None:
            v = fn(self._consts())
            if v[0] == "primcall":
                return w.op(v[1], v[2], [w.ev_rexpr(x) for x in v[3]], {})
            return w.to_python(w.ev_rexpr(v))
        if (self._cls, attr) in w.comp.rec_methods:
            return functools.partial(self._meth, attr)
        raise Divergence(f"real code reads .{attr} of a {self._cls}, which the model does not know")

    def __setattr__(self, attr, value):
        if (self._cls, "set:" + attr) in self._w.comp.rec_methods:
            self._meth("set:" + attr, value)

    def __call__(self, *a, **k):
        return self._meth("__call__", *a, **k)

    def __contains__(self, item):
        fn = self._w.comp.rec_attrs.get((self._cls, "__contains__"))
        if fn is None:
            raise Divergence(f"real code tests membership in a {self._cls}")
        return bool(self._w.ev_rexpr(fn(self._consts(), self._w.from_python(item))))

    def __eq__(self, other):
        return isinstance(other, RecProxy) and (other._cls, other._fields) == (self._cls, self._fields)

    def __hash__(self):
        return hash((self._cls, tuple(sorted(self._fields.items()))))


def run_replay(slice_, init_state, trace, timeout=25.0):
    """Replay `trace` from `init_state` (dict var -> concrete value). Returns (final state, finished, parked)."""
    steps = [e for e in trace if not e.get("idle") and e.get("label") != "start"]
    sched = Sched(steps, timeout=timeout)
    world = World(slice_, init_state, sched, slice_.pe)
    patches = slice_.patch_real_module(world)
    bodies = {}
    for t, (fn, args) in slice_.thread_specs.items():
        real = getattr(slice_.drivers, fn)
        pargs = [world.to_python(world.ev_rexpr(a)) for a in args]
        bodies[t] = functools.partial(real, *pargs)
    try:
        parked, finished = sched.run(bodies)
    finally:
        for mod, name, old in patches:
            setattr(mod, name, old)
    if sched.error is not None:
        raise sched.error
    return world.state, finished, parked
