"""Slice X7: two threads race in the real _ReusablePoolExecutor.get_reusable_executor (C09)."""
import z3

from . import drivers_exec
from .front import ClassTable, Compiler, Ctx, Node, ObjRef, Unsupported
from .mexec import ThreadLockModel
from .model import BV, END, Outcome, State, System, W
from .prims import RECURSIVE_MUTEX, Model, ObsModel
from .prims_exec import FieldsModel, as_idx, bit, onehot, popcount, zk

T = z3.BoolVal(True)
NEX = 3  # executor slots


class ExecutorTable(Model):
    """_ReusablePoolExecutor instances as get_reusable_executor sees them: constructor, shutdown, _resize and
    the flags it reads."""
    METHODS = {"__call__": [], "shutdown": [], "_resize": [], "get_broken": [], "get_shutdown": [], "get_mw": []}

    def __init__(self, S):
        S.declare("et.next", W, None)
        S.declare("et.live", W, None)       # constructed and not shut down
        S.declare("et.broken", W, None)
        for i in range(NEX):
            S.declare(f"et.mw.{i}", W, None)
            S.declare(f"et.id.{i}", W, None)
            S.declare(f"et.kw.{i}", W, None)
        S.declare("g.two_live", "bool", False)
        S.declare("g.id_not_increasing", "bool", False)
        S.declare("g.maxid", W, None)
        S.declare("g.shutdown_not_waited", "bool", False)
        S.declare("g.created_unlocked", "bool", False)
        S.domain += [z3.ULT(S["et.live"], BV(1 << NEX)), z3.ULT(S["et.broken"], BV(1 << NEX)), z3.ULE(S["et.next"], BV(NEX))]

    def result_type(self, method):
        return {"__call__": ("rec", "Executor", {"i": "int", "?": "bool"}), "get_broken": "bool", "get_shutdown": "bool",
                "get_mw": "int"}.get(method)

    def fused(self, method, t=None):
        return False

    def outcomes(self, method, args, kwargs, t, S):
        nxt, live, broken = S["et.next"], S["et.live"], S["et.broken"]
        if method == "__call__":
            # cls(_executor_lock, max_workers=..., executor_id=..., **kwargs)
            mw, eid = kwargs["max_workers"], kwargs["executor_id"]
            kw = kwargs["**"] if "**" in kwargs else kwargs["timeout"]  # compiled call: **kwargs; real call: expanded
            kw = kw[2]["v"] if isinstance(kw, tuple) else kw
            u = {"et.next": nxt + 1, "et.live": live | onehot(nxt, NEX),
                 "g.two_live": z3.Or(S["g.two_live"], live != 0),
                 # g.maxid = first id not yet issued: a new executor's id must not be below it
                 "g.id_not_increasing": z3.Or(S["g.id_not_increasing"], z3.ULT(zk(eid), S["g.maxid"])),
                 "g.maxid": zk(eid) + 1,
                 "g.created_unlocked": z3.Or(S["g.created_unlocked"], S["rxlock.v"] != 0)}
            for i in range(NEX):
                sel = nxt == BV(i)
                u[f"et.mw.{i}"] = z3.If(sel, zk(mw), S[f"et.mw.{i}"])
                u[f"et.id.{i}"] = z3.If(sel, zk(eid), S[f"et.id.{i}"])
                u[f"et.kw.{i}"] = z3.If(sel, zk(kw), S[f"et.kw.{i}"])
            return [Outcome(z3.ULT(nxt, BV(NEX)), u, ("rec", "Executor", {"i": nxt, "?": T}), None, "ok")]
        i = as_idx(args[0])
        if method == "shutdown":
            wait = kwargs.get("wait", True)
            return [Outcome(T, {"et.live": live & ~onehot(i, NEX),
                                "g.shutdown_not_waited": z3.Or(S["g.shutdown_not_waited"], z3.BoolVal(wait is not True))},
                            None, None, "ok")]
        if method == "_resize":
            return [Outcome(T, {f"et.mw.{j}": z3.If(zk(i) == BV(j), zk(args[1]), S[f"et.mw.{j}"]) for j in range(NEX)}, None, None, "ok")]
        if method == "get_broken":
            return [Outcome(T, {}, bit(broken, i, NEX), None, "read")]
        if method == "get_shutdown":
            return [Outcome(T, {}, z3.Not(bit(live, i, NEX)), None, "read")]
        if method == "get_mw":
            out = S["et.mw.0"]
            for j in range(1, NEX):
                out = z3.If(zk(i) == BV(j), S[f"et.mw.{j}"], out)
            return [Outcome(T, {}, out, None, "read")]
        raise KeyError(method)


class GlobalsModel(FieldsModel):
    """Module-level singleton state of loky.reusable_executor (an optional executor record + ints)."""

    def __init__(self, S):
        self.name = "rxg"
        S.declare("rxg._executor#i", W, None)
        S.declare("rxg._executor#?", "bool", None)
        S.declare("rxg._executor_kwargs", W, None)
        S.declare("rxg._executor_kwargs#?", "bool", None)
        S.declare("rxg._next_executor_id", W, None)
        self.fused_reads = set()
        self.fields = {"_executor": None, "_executor_kwargs": None, "_next_executor_id": None}

    def spec(self, method):
        k, _, f = method.partition(":")
        return [] if k in ("get", "set") and f in self.fields else None

    def result_type(self, method):
        k, _, f = method.partition(":")
        if k == "set":
            return None
        return {"_executor": ("rec", "Executor", {"i": "int", "?": "bool"}),
                "_executor_kwargs": ("rec", "Kw", {"v": "int", "?": "bool"}), "_next_executor_id": "int"}[f]

    def fused(self, method, t=None):
        return False

    def outcomes(self, method, args, kwargs, t, S):
        k, _, f = method.partition(":")
        if k == "get":
            if f == "_executor":
                return [Outcome(T, {}, ("rec", "Executor", {"i": S["rxg._executor#i"], "?": S["rxg._executor#?"]}), None, "read")]
            if f == "_executor_kwargs":
                return [Outcome(T, {}, ("rec", "Kw", {"v": S["rxg._executor_kwargs"], "?": S["rxg._executor_kwargs#?"]}), None, "read")]
            return [Outcome(T, {}, S["rxg._next_executor_id"], None, "read")]
        v = args[0]
        if f == "_executor":
            if v is None:
                return [Outcome(T, {"rxg._executor#?": z3.BoolVal(False)}, None, None, "write")]
            return [Outcome(T, {"rxg._executor#i": zk(v[2]["i"]), "rxg._executor#?": v[2].get("?", T)}, None, None, "write")]
        if f == "_executor_kwargs":
            if v is None:
                return [Outcome(T, {"rxg._executor_kwargs#?": z3.BoolVal(False)}, None, None, "write")]
            val = v[2]["v"] if isinstance(v, tuple) else v
            return [Outcome(T, {"rxg._executor_kwargs": zk(val), "rxg._executor_kwargs#?": T}, None, None, "write")]
        return [Outcome(T, {"rxg._next_executor_id": zk(v)}, None, None, "write")]


class ReusableSlice:
    def __init__(self, n_threads=2):
        import loky.reusable_executor as rx
        self.pe = rx
        self.rx = rx
        self.drivers = drivers_exec
        self.ct = ClassTable([rx, drivers_exec])
        self.S = S = State()
        O = self.objects = {}
        O["rxlock"] = {"model": ThreadLockModel("rxlock", RECURSIVE_MUTEX, 1, 1, 1, S)}
        O["etable"] = {"model": ExecutorTable(S)}
        O["rxg"] = {"model": GlobalsModel(S), "attrs": {"_executor": ("field",), "_executor_kwargs": ("field",),
                                                        "_next_executor_id": ("field",)}}
        O["RX"] = {"cls": "_ReusablePoolExecutor", "model": O["etable"]["model"], "attrs": {}}
        self.obs = ObsModel(S)
        O["obs"] = {"model": self.obs}
        self.comp = c = Compiler(self.ct, O, opaque_calls=["mp.util.debug", "warnings.warn"])
        c.globals = {"_executor_lock": ("o", "rxlock"), "_executor": ("gfield", "rxg"), "_executor_kwargs": ("gfield", "rxg"),
                     "_next_executor_id": ("gfield", "rxg"), "cpu_count": ("prim", "obs", "cpu_count"),
                     "get_context": ("prim", "obs", "get_context")}
        c.ctors["dict"] = lambda a, k: ("rec", "Kw", {"v": k["timeout"], "?": ("c", True)})
        c.kwargs_expanders["Kw"] = lambda f: {"timeout": f["v"]}  # the only configuration parameter that varies here
        c.rec_attrs[("Executor", "_max_workers")] = lambda f: ("primcall", "etable", "get_mw", [f["i"]])
        c.rec_attrs[("Executor", "_flags")] = lambda f: ("rec", "EFlags", {"i": f["i"]})
        c.rec_attrs[("EFlags", "broken")] = lambda f: ("primcall", "etable", "get_broken", [f["i"]])
        c.rec_attrs[("EFlags", "shutdown")] = lambda f: ("primcall", "etable", "get_shutdown", [f["i"]])
        c.rec_methods[("Executor", "shutdown")] = ("etable", "shutdown", lambda f: [f["i"]])
        c.rec_methods[("Executor", "_resize")] = ("etable", "_resize", lambda f: [f["i"]])
        self.obs.define("cpu_count", lambda a, k, t, S_: [Outcome(T, {}, BV(2), None, "obs")], "int", fused=True)
        self.sys = System(O, S)
        self.sys._keep = set()
        self.thread_specs = {}
        self.threads = []
        for j in range(n_threads):
            S.declare(f"in.mw.{j}", W, None)
            S.declare(f"in.cfg.{j}", W, None)
            S.declare(f"g.got.{j}#i", W, 0)
            S.declare(f"g.got.{j}", "bool", False)
            S.declare(f"g.reused.{j}", "bool", False)
            for nm in (f"in.mw.{j}", f"in.cfg.{j}"):
                self.sys.local_types[nm] = "int"
                c.immutable.add(nm)

        def got(args, kwargs, t, S_):
            ex, reused = args
            j = t.tid - 1
            rz = reused if z3.is_expr(reused) else z3.BoolVal(bool(reused))
            return [Outcome(T, {f"g.got.{j}": T, f"g.got.{j}#i": zk(ex[2]["i"]), f"g.reused.{j}": rz}, None, None, "obs")]
        self.obs.define("got", got, fused=True)

    to_python = {"Kw": lambda w, f: dict(context=None, timeout=int(f["v"]), job_reducers=None, result_reducers=None,
                                          initializer=None, initargs=(), env=None)}
    from_python = [(dict, lambda w, d: ("rec", "Kw", {"v": int(d["timeout"]), "?": True}))]

    def real_class(self, owner):
        return getattr(self.rx, owner)

    def thread(self, name, fn, args):
        self.thread_specs[name] = (fn, list(args))
        fdef, _ = self.ct.funcs[fn]
        end = lambda r: Node("end", value=None, label="end")
        ctx = Ctx(self.comp, "top", {}, end, [], [], [])
        entry = self.comp.inline(fdef, args, {}, ctx, end, fn)
        t = self.sys.add_thread(name, 0, entry)
        self.threads.append(t)
        return t

    def finish(self):
        self.sys._keep |= {n for n in self.S.decl if n.startswith(("in.", "g."))}
        self.sys.build()
        self.functions = sorted(self.comp.used_functions)
        return self

    def all_ended(self):
        return z3.And(*[self.S[t.pcvar] == z3.BitVecVal(END, 8) for t in self.sys.threads])

    def patch_real_module(self, world):
        from .replay_generic import StaticProxy
        import types
        rx = self.rx
        patches = []

        def patch(name, val):
            patches.append((rx, name, getattr(rx, name)))
            setattr(rx, name, val)
        patch("_executor_lock", StaticProxy(world, "rxlock"))
        patch("cpu_count", lambda: 2)
        patch("mp", types.SimpleNamespace(util=types.SimpleNamespace(debug=lambda *a, **k: None)))
        # Plain reads/writes of module globals cannot be intercepted in byte-code, so the two functions that
        # touch the singleton state are re-compiled from their own source with one mechanical rewrite:
        # the global names become attributes of a proxy object (`_executor` -> `__rxg__._executor`), the
        # `global` statements are dropped; nothing else changes.
        import ast
        import inspect
        import textwrap
        names = {"_executor", "_executor_kwargs", "_next_executor_id"}

        class Rw(ast.NodeTransformer):
            def visit_Global(self, node):
                rest = [n for n in node.names if n not in names]
                return ast.Global(names=rest) if rest else ast.Pass()

            def visit_Name(self, node):
                if node.id in names:
                    return ast.copy_location(ast.Attribute(value=ast.Name(id="__rxg__", ctx=ast.Load()), attr=node.id,
                                                            ctx=node.ctx), node)
                return node

        def recompile(fn):
            src = textwrap.dedent(inspect.getsource(fn))
            tree = ast.parse(src)
            fdef = tree.body[0]
            fdef.decorator_list = []
            tree = ast.fix_missing_locations(Rw().visit(tree))
            ns = dict(vars(rx))
            ns["__rxg__"] = StaticProxy(world, "rxg")
            ns["_executor_lock"] = StaticProxy(world, "rxlock")
            ns["cpu_count"] = lambda: 2
            ns["mp"] = types.SimpleNamespace(util=types.SimpleNamespace(debug=lambda *a, **k: None))
            exec(compile(tree, f"<rewritten {fn.__name__}>", "exec"), ns)
            return ns[fdef.name], ns
        gid, ns1 = recompile(rx._get_next_executor_id)
        patch("_get_next_executor_id", gid)
        fac, ns2 = recompile(rx._ReusablePoolExecutor.get_reusable_executor.__func__)
        ns2["_get_next_executor_id"] = gid
        cls = rx._ReusablePoolExecutor
        patches.append((cls, "get_reusable_executor", cls.__dict__["get_reusable_executor"]))
        cls.get_reusable_executor = classmethod(fac)
        return patches
