"""E-TS middle end: CFG + primitive models -> guarded transitions over a fixed state vector.

A transition = one visible primitive operation (one outcome of it) fused with the
thread-local computation up to the next visible operation.  Guards and updates
are z3 terms over canonical pre-state constants; the BMC back end instantiates
them per step by substitution.
"""
import itertools

import z3

from .front import Node, Unsupported, reachable

W = 4  # bit width of integer state (counters, ids); overflow is an error flag


def BV(v, w=W):
    return z3.BitVecVal(v, w)


class Outcome:
    def __init__(self, guard, updates=None, result=None, exc=None, label=""):
        self.guard, self.updates, self.result, self.exc, self.label = guard, updates or {}, result, exc, label


class State:
    """Declaration of the state vector: name -> (sort, initial value or None for symbolic)."""

    def __init__(self):
        self.decl = {}
        self.pre = {}
        self.ghost = set()
        self.domain = []  # well-formedness of symbolic initial values (unused high bits of masks are zero, ...)

    def declare(self, name, sort, init=None, ghost=False):
        if name in self.decl:
            return self.pre[name]
        self.decl[name] = (sort, init)
        self.pre[name] = z3.Bool(name) if sort == "bool" else z3.BitVec(name, sort)
        if ghost:
            self.ghost.add(name)
        return self.pre[name]

    def __getitem__(self, name):
        return self.pre[name]


class View:
    """State as seen in the middle of a fused transition: pending updates shadow the pre-state."""

    def __init__(self, state, env):
        self.state, self.env = state, env

    def __getitem__(self, name):
        v = self.env.get(name)
        return self.state[name] if v is None else v


class Transition:
    def __init__(self, thread, src, dst, guard, updates, label, info=None):
        self.thread, self.src, self.dst = thread, src, dst
        self.guard, self.updates, self.label = guard, updates, label
        self.info = info or {}
        self.reads, self.writes = set(), set()


class Thread:
    def __init__(self, name, tid, proc, entry):
        self.name, self.tid, self.proc, self.entry = name, tid, proc, entry
        self.pcvar = f"pc.{name}"
        self.locs = {}  # node id -> small int


START, END, FAILED = 0, 1, 2


def zconst(v):
    if isinstance(v, bool):
        return z3.BoolVal(v)
    if isinstance(v, int):
        return BV(v)
    return v


def collect_consts(e, acc):
    if not z3.is_expr(e):
        return
    todo = [e]
    seen = set()
    while todo:
        x = todo.pop()
        if x.get_id() in seen:
            continue
        seen.add(x.get_id())
        if z3.is_const(x) and x.decl().kind() == z3.Z3_OP_UNINTERPRETED:
            acc.add(x.decl().name())
        else:
            todo.extend(x.children())


class System:
    def __init__(self, objects, state=None):
        self.objects = objects  # name -> {'model': ..., ...}
        self.S = state or State()
        self.threads = []
        self.transitions = []
        self.fail_reasons = []  # index -> text
        self.local_types = {}
        self.S.declare("fail", 8, 0)      # 0 = none, k = fail_reasons[k-1]
        self.S.declare("failthread", W, 0)

    # ------------------------------------------------------------------ threads
    def add_thread(self, name, proc, entry):
        t = Thread(name, len(self.threads) + 1, proc, entry)
        self.threads.append(t)
        return t

    # ------------------------------------------------------------------ local typing
    def infer_local_types(self):
        types = self.local_types
        nodes = []
        for t in self.threads:
            nodes += reachable(t.entry)
        changed = True
        rounds = 0
        while changed:
            changed = False
            rounds += 1
            if rounds > 50:
                raise Unsupported("local typing does not converge")
            for n in nodes:
                if n.kind == "assign" and n.target is not None:
                    ty = self.type_of(n.value, types)
                elif n.kind == "call":
                    ty = self.objects[n.obj]["model"].result_type(n.method)
                    if isinstance(ty, tuple):
                        for name, t2 in self.flat_types(ty, n.target):
                            if types.get(name) is None:
                                types[name] = t2
                                changed = True
                        continue
                else:
                    continue
                tgt = n.target
                if ty is None or ty == "none":
                    continue
                if types.get(tgt) is None:
                    types[tgt] = ty
                    changed = True
                elif types[tgt] != ty:
                    raise Unsupported(f"local {tgt} has two types {types[tgt]} / {ty}")
        for name, ty in types.items():
            self.S.declare(name, "bool" if ty == "bool" else W, False if ty == "bool" else 0)

    def flat_types(self, rt, tmp):
        if rt[0] == "rec":
            return [(f"{tmp}#{f}", t) for f, t in rt[2].items()]
        out = []
        for i, x in enumerate(rt[1]):
            if isinstance(x, tuple):
                out += self.flat_types(x, f"{tmp}.{i}")
            elif x is not None:
                out.append((f"{tmp}.{i}", x))
        return out

    def bind_result(self, env, target, rt, value):
        """Store a primitive's result into the locals that result_rexpr() names."""
        if isinstance(rt, tuple) and rt[0] == "rec":
            for f in rt[2]:
                env[f"{target}#{f}"] = zconst(value[2][f])
        elif isinstance(rt, tuple) and rt[0] == "tuple":
            for i, x in enumerate(rt[1]):
                if x is not None:
                    self.bind_result(env, f"{target}.{i}", x, value[1][i])
        elif value is not None:
            env[target] = zconst(value)

    def type_of(self, r, types):
        k = r[0]
        if k == "c":
            v = r[1]
            if isinstance(v, bool):
                return "bool"
            if isinstance(v, int):
                return "int"
            return "none"
        if k == "v":
            return types.get(r[1])
        if k in ("cmp", "not", "and", "or", "isinstance", "bit"):
            return "bool"
        if k in ("bin", "un"):
            return "int"
        return None

    # ------------------------------------------------------------------ expression evaluation
    def ev(self, r, env, reads):
        k = r[0]
        if k == "c":
            return r[1]
        if k == "v":
            name = r[1]
            if name in env:
                return env[name]
            if name not in self.S.pre:
                raise Unsupported(f"read of untyped local {name}")
            reads.add(name)
            return self.S[name]
        if k == "o":
            return r
        if k == "not":
            v = self.truth(self.ev(r[1], env, reads))
            return (not v) if isinstance(v, bool) else z3.Not(v)
        if k in ("and", "or"):
            vs = [self.truth(self.ev(x, env, reads)) for x in r[1]]
            if all(isinstance(v, bool) for v in vs):
                return all(vs) if k == "and" else any(vs)
            vs = [zconst(v) for v in vs]
            return z3.And(*vs) if k == "and" else z3.Or(*vs)
        if k == "bin":
            a, b = self.ev(r[2], env, reads), self.ev(r[3], env, reads)
            if isinstance(a, int) and isinstance(b, int):
                return {"+": a + b, "-": a - b, "*": a * b}[r[1]]
            a, b = zconst(a), zconst(b)
            return {"+": a + b, "-": a - b, "*": a * b}[r[1]]
        if k == "un":
            a = self.ev(r[2], env, reads)
            return -a
        if k == "cmp":
            op = r[1]
            a, b = self.ev(r[2], env, reads), self.ev(r[3], env, reads)
            if op in ("is", "isnot"):
                if a is None or b is None:
                    same = (a is None and b is None)
                    if (z3.is_expr(a) or z3.is_expr(b)):
                        same = False  # a typed runtime value is never None
                elif isinstance(a, (bool, int, str)) and isinstance(b, (bool, int, str)):
                    same = a is b or a == b
                else:
                    raise Unsupported("`is` on symbolic values")
                return same if op == "is" else not same
            isrec = lambda x: isinstance(x, tuple) and len(x) == 3 and x[0] == "rec"
            if (isrec(a) or isrec(b)) and op in ("==", "!="):
                if isrec(a) and isrec(b) and a[1] == b[1]:
                    parts = []
                    pa, pb = a[2].get("?", True), b[2].get("?", True)
                    both = z3.And(zconst(self.truth(pa)), zconst(self.truth(pb)))
                    for f in a[2]:
                        if f != "?":
                            parts.append(zconst(a[2][f]) == zconst(b[2][f]))
                    eq = z3.Or(z3.And(both, *parts), z3.And(z3.Not(zconst(self.truth(pa))), z3.Not(zconst(self.truth(pb)))))
                else:
                    r, other = (a, b) if isrec(a) else (b, a)
                    if other is not None:
                        raise Unsupported("comparison of a record with a non-record")
                    eq = z3.Not(zconst(self.truth(r[2].get("?", True))))
                return eq if op == "==" else z3.Not(eq)
            if not z3.is_expr(a) and not z3.is_expr(b):
                if a is None or b is None:
                    res = {"==": a is b, "!=": a is not b}.get(op)
                    if res is None:
                        raise Unsupported("ordering with None")
                    return res
                return {"==": a == b, "!=": a != b, "<": a < b, "<=": a <= b, ">": a > b, ">=": a >= b}[op]
            if a is None or b is None:
                return op == "!="
            a, b = zconst(a), zconst(b)
            if z3.is_bool(a) != z3.is_bool(b):
                # bool vs int comparison (e.g. result == True)
                a = z3.If(a, BV(1), BV(0)) if z3.is_bool(a) else a
                b = z3.If(b, BV(1), BV(0)) if z3.is_bool(b) else b
            if op == "==":
                return a == b
            if op == "!=":
                return a != b
            # counters are small non-negative numbers: unsigned comparison
            return {"<": z3.ULT, "<=": z3.ULE, ">": z3.UGT, ">=": z3.UGE}[op](a, b)
        if k == "tuple":
            return ("tuple", [self.ev(x, env, reads) for x in r[1]])
        if k == "list":
            return ("list", [self.ev(x, env, reads) for x in r[1]])
        if k == "rec":
            return ("rec", r[1], {f: self.ev(x, env, reads) for f, x in r[2].items()})
        if k == "bit":
            m = self.ev(r[1], env, reads)
            if isinstance(m, int):
                return bool((m >> r[2]) & 1)
            return z3.Extract(r[2], r[2], m) == 1
        if k == "ite":
            c = self.truth(self.ev(r[1], env, reads))
            a, b = self.ev(r[2], env, reads), self.ev(r[3], env, reads)
            if isinstance(c, bool):
                return a if c else b
            return z3.If(c, zconst(a), zconst(b))
        raise Unsupported(f"expression form {k}")

    def truth(self, v):
        if isinstance(v, bool):
            return v
        if v is None:
            return False
        if isinstance(v, int):
            return v != 0
        if isinstance(v, str):
            return bool(v)
        if z3.is_bool(v):
            return v
        if z3.is_bv(v):
            return v != 0
        if isinstance(v, tuple) and v[0] in ("o", "tuple", "list"):
            return True
        if isinstance(v, tuple) and v[0] == "rec":
            return self.truth(v[2]["?"]) if "?" in v[2] else True
        raise Unsupported(f"truth value of {v!r}")

    # ------------------------------------------------------------------ transition generation
    def build(self):
        self.infer_local_types()
        for t in self.threads:
            self.S.declare(t.pcvar, 8, START)
            t.locs = {}
            self.gen_thread(t)
        # dead-local pruning: a local never read from the pre-state is not part of the state
        read_locals = set()
        for tr in self.transitions:
            acc = set()
            collect_consts(tr.guard, acc)
            for v in tr.updates.values():
                collect_consts(v, acc)
            tr.reads = acc
            read_locals |= acc
        for name in list(self.local_types):
            if name not in read_locals and name not in self.keep_locals():
                for tr in self.transitions:
                    tr.updates.pop(name, None)
                self.S.decl.pop(name, None)
                self.S.pre.pop(name, None)
        for tr in self.transitions:
            tr.writes = set(tr.updates)
        return self

    def keep_locals(self):
        return getattr(self, "_keep", set())

    def loc(self, t, node):
        if node.kind == "end":
            return END
        if node.kind == "fail":
            return FAILED
        if node.id not in t.locs:
            t.locs[node.id] = 3 + len([v for v in t.locs.values() if v != START])
            self.pending.append(node)
        return t.locs[node.id]

    def gen_thread(self, t):
        self.pending = []
        # from START: walk to the first visible operation
        starts = list(self.walk(t, t.entry, {}, []))
        if len(starts) == 1 and not starts[0][0] and not starts[0][1] and starts[0][2].kind == "call":
            # deterministic, effect-free prologue: the thread simply starts at its first visible operation
            t.locs[starts[0][2].id] = START
            self.pending.append(starts[0][2])
        else:
            for pc, upd, dst, fail in starts:
                self.emit(t, START, dst, z3.BoolVal(True), pc, upd, fail, "start", {})
        done = set()
        while self.pending:
            n = self.pending.pop()
            if n.id in done:
                continue
            done.add(n.id)
            src = t.locs[n.id]
            model = self.objects[n.obj]["model"]
            reads = set()
            args = [self.ev(a, {}, reads) for a in n.args]
            kwargs = {k: self.ev(v, {}, reads) for k, v in n.kwargs.items()}
            outs = model.outcomes(n.method, args, kwargs, t, self.S)
            for o in outs:
                env = {k2: zconst(v2) for k2, v2 in o.updates.items()}
                if o.exc is not None:
                    if o.exc not in n.exc:
                        raise Unsupported(f"model raises {o.exc} not declared for {n.obj}.{n.method}")
                    nxt = n.exc[o.exc]
                else:
                    nxt = n.next
                    self.bind_result(env, n.target, model.result_type(n.method), o.result)
                info = {"obj": n.obj, "method": n.method, "outcome": o.label, "exc": o.exc}
                for pc, upd, dst, fail in self.walk(t, nxt, env, []):
                    self.emit(t, src, dst, o.guard, pc, upd, fail, f"{n.obj}.{n.method}:{o.label}", info)

    def emit(self, t, src, dst_node, guard, pathcond, updates, fail, label, info):
        S = self.S
        g = z3.And(S[t.pcvar] == z3.BitVecVal(src, 8), guard, *[zconst(c) for c in pathcond])
        u = {}
        for k, v in updates.items():
            if k in S.decl or k in self.local_types:
                u[k] = zconst(v)
        if dst_node.kind == "fail":
            if dst_node.reason not in self.fail_reasons:
                self.fail_reasons.append(dst_node.reason)
            u["fail"] = z3.If(S["fail"] == 0, z3.BitVecVal(self.fail_reasons.index(dst_node.reason) + 1, 8), S["fail"])
            u["failthread"] = z3.If(S["fail"] == 0, BV(t.tid), S["failthread"])
            dst = FAILED
        else:
            dst = self.loc(t, dst_node)
        if dst_node.kind == "end" and dst_node.value is not None and getattr(self, "capture_return", None):
            self.capture_return(t, dst_node, updates, u)
        u[t.pcvar] = z3.BitVecVal(dst, 8)
        tr = Transition(t, src, dst, z3.simplify(g), u, label, dict(info, thread=t.name, src=src, dst=dst))
        if z3.is_false(tr.guard):
            return
        self.transitions.append(tr)

    def walk(self, t, node, env, pathcond, fuel=400):
        """Symbolically execute thread-local nodes from `node` until a visible operation.
        Yields (pathcond, local updates, stable node, fail)."""
        env = dict(env)
        pathcond = list(pathcond)
        while True:
            fuel -= 1
            if fuel < 0:
                raise Unsupported("thread-local loop without a visible operation")
            if node.kind == "call" and self.objects[node.obj]["model"].fused(node.method, t):
                model = self.objects[node.obj]["model"]
                reads = set()
                args = [self.ev(a, env, reads) for a in node.args]
                kwargs = {k: self.ev(v, env, reads) for k, v in node.kwargs.items()}
                outs = model.outcomes(node.method, args, kwargs, t, View(self.S, env))
                if len(outs) != 1 or outs[0].exc is not None:
                    raise Unsupported(f"fused primitive {node.obj}.{node.method} must be deterministic")
                for k2, v2 in outs[0].updates.items():
                    env[k2] = zconst(v2)
                self.bind_result(env, node.target, model.result_type(node.method), outs[0].result)
                node = node.next
                continue
            if node.kind in ("call", "end", "fail"):
                if node.kind == "end" and node.value is not None:
                    reads = set()
                    rv = self.ev(node.value, env, reads)
                    env = dict(env)
                    env["$ret"] = rv
                yield pathcond, env, node, node.kind == "fail"
                return
            if node.kind == "jump":
                node = node.next
                continue
            if node.kind == "assign":
                reads = set()
                v = self.ev(node.value, env, reads)
                ty = self.local_types.get(node.target)
                if ty == "bool":
                    v = self.truth(v) if not z3.is_bool(v) else v
                if ty is not None and v is not None:
                    env[node.target] = zconst(v)
                node = node.next
                continue
            if node.kind == "branch":
                reads = set()
                c = self.truth(self.ev(node.test, env, reads))
                if isinstance(c, bool):
                    node = node.t if c else node.f
                    continue
                c = z3.simplify(c)
                if z3.is_true(c):
                    node = node.t
                    continue
                if z3.is_false(c):
                    node = node.f
                    continue
                yield from self.walk(t, node.t, env, pathcond + [c], fuel)
                yield from self.walk(t, node.f, env, pathcond + [z3.Not(c)], fuel)
                return
            raise Unsupported(f"node kind {node.kind}")
