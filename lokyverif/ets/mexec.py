"""M_exec slices: parts of the executor protocol compiled from the current source of
loky/process_executor.py (and backend/queues.py), from symbolic initial states."""
import ast

import z3

from . import drivers_exec
from .front import ClassTable, Compiler, Ctx, Node, ObjRef, Unsupported
from .mcond import make_semlock_obj
from .model import BV, END, FAILED, Outcome, State, System, W
from .prims import SEMAPHORE, Model, ObsModel, SemModel
from .prims_exec import (CANCELLED, CANCELLED_AND_NOTIFIED, EXC_TAGS, FINISHED, PENDING, RUNNING, R_PICKLING,
                         R_RUNTIME, ConnModel, DictModel, FieldsModel, FutureTable, ListModel, PipeState,
                         WorkIdsModel, as_idx, bit, onehot, popcount, zk)

T = z3.BoolVal(True)


class ThreadLockModel(SemModel):
    """threading.Lock: acquire/release plus the context-manager protocol as primitives."""
    METHODS = dict(SemModel.METHODS, __enter__=[], __exit__=["ValueError", "AssertionError"])

    def result_type(self, method):
        return {"__enter__": "bool", "__exit__": None}.get(method) if method in ("__enter__", "__exit__") \
            else SemModel.result_type(self, method)

    def outcomes(self, method, args, kwargs, t, S):
        if method == "__enter__":
            return SemModel.outcomes(self, "acquire", [], {}, t, S)
        if method == "__exit__":
            return SemModel.outcomes(self, "release", [], {}, t, S)
        return SemModel.outcomes(self, method, args, kwargs, t, S)


class CallQueueModel(Model):
    """multiprocessing.queues.Queue as seen by the manager thread: slot semaphore + feeder buffer."""
    METHODS = {"full": [], "put": [], "put_nowait": ["Full"], "close": [], "join_thread": [],
               "take_failed_item": [], "worker_get": []}

    def __init__(self, name, S, n, cap, free=None):
        self.name, self.n, self.cap = name, n, cap
        S.declare(f"{name}.free", W, free)       # value of the bounded semaphore _sem
        S.declare(f"{name}.buf", W, 0)           # ids sitting in the feeder buffer
        S.declare(f"{name}.put", W, 0)           # ghost: ids ever put
        S.declare(f"{name}.dupput", "bool", False)
        S.declare(f"{name}.sentinels", W, 0)
        S.declare(f"{name}.closed", "bool", False)
        for v in ("buf", "put"):
            S.domain.append(z3.ULT(S[f"{name}.{v}"], BV(1 << n)) if n < W else z3.BoolVal(True))
        S.domain.append(z3.ULE(S[f"{name}.free"], BV(cap)))
        self.hooks = {}

    def result_type(self, method):
        return {"full": "bool", "take_failed_item": ("rec", "CallItem", {"i": "int"}),
                "worker_get": ("rec", "CallItem", {"i": "int", "?": "bool"})}.get(method)

    def outcomes(self, method, args, kwargs, t, S):
        nm = self.name
        free, buf, put = S[f"{nm}.free"], S[f"{nm}.buf"], S[f"{nm}.put"]
        if method == "full":
            return [Outcome(T, {}, free == 0, None, "read")]
        if method in ("put", "put_nowait"):
            item = args[0]
            block = kwargs.get("block", args[1] if len(args) > 1 else True) if method == "put" else False
            u = {f"{nm}.free": free - 1}
            if item is None:
                u[f"{nm}.sentinels"] = S[f"{nm}.sentinels"] + 1
            else:
                k = as_idx(item)
                u[f"{nm}.buf"] = buf | onehot(k, self.n)
                u[f"{nm}.put"] = put | onehot(k, self.n)
                u[f"{nm}.dupput"] = z3.Or(S[f"{nm}.dupput"], bit(put, k, self.n))
                h = self.hooks.get("put")
                if h:
                    u.update(h(k, t, S))
            outs = [Outcome(free != 0, u, None, None, "ok")]  # a blocking put waits for a slot
            if block is False:
                outs.append(Outcome(free == 0, {}, None, "Full", "full"))
            return outs
        if method == "take_failed_item":
            # environment: the feeder thread pops an item whose pickling then fails (the slot is released
            # by Queue._feed before the error callback runs)
            outs = []
            for j in range(self.n):
                outs.append(Outcome(z3.Extract(j, j, buf) == 1,
                                    {f"{nm}.buf": buf & ~BV(1 << j), f"{nm}.free": free + 1},
                                    ("rec", "CallItem", {"i": BV(j)}), None, f"item{j}"))
            return outs
        if method == "worker_get":
            # a worker's call_queue.get(): items in id order, then sentinels; gives the slot back (_sem.release())
            outs = []
            for j in range(self.n):
                lower = (z3.Extract(j - 1, 0, buf) == 0) if j > 0 else T
                outs.append(Outcome(z3.And(z3.Extract(j, j, buf) == 1, lower),
                                    {f"{nm}.buf": buf & ~BV(1 << j), f"{nm}.free": free + 1},
                                    ("rec", "CallItem", {"i": BV(j), "?": T}), None, f"item{j}"))
            sent = S[f"{nm}.sentinels"]
            lowbits = z3.Extract(self.n - 1, 0, buf) == 0
            outs.append(Outcome(z3.And(lowbits, sent != 0), {f"{nm}.sentinels": sent - 1, f"{nm}.free": free + 1},
                                ("rec", "CallItem", {"i": BV(0), "?": z3.BoolVal(False)}), None, "sentinel"))
            return outs
        if method == "close":
            return [Outcome(T, {f"{nm}.closed": T}, None, None, "ok")]
        if method == "join_thread":
            return [Outcome(T, {}, None, None, "ok")]
        raise KeyError(method)


class ProcessTable(Model):
    """Worker processes as the parent sees them (slots 0..n-1; pid == slot)."""
    METHODS = {"new_exit_lock": [], "exit_lock_acquire": [], "new_process": [], "start": [], "join": [], "is_alive": [],
               "exit_release": ["ValueError"], "exit_acquire": [], "die": [], "set_exit_lock": [], "kill": [], "crash": []}

    def __init__(self, name, S, n, alive=0, started=0, exitlock=0):
        self.name, self.n = name, n
        S.declare(f"{name}.alive", W, alive)
        S.declare(f"{name}.started", W, started)
        S.declare(f"{name}.joined", W, 0)
        S.declare(f"{name}.exitlock", W, exitlock)   # value (0/1) of each worker's exit semaphore
        S.declare(f"{name}.next", W, None)
        S.declare(f"{name}.spawned_unlocked", "bool", False)
        for v in ("alive", "started", "joined", "exitlock"):
            S.domain.append(z3.ULT(S[f"{name}.{v}"], BV(1 << n)) if n < W else z3.BoolVal(True))
        S.domain.append(z3.ULE(S[f"{name}.next"], BV(n)))

    def result_type(self, method):
        return {"new_exit_lock": ("rec", "ExitLock", {"i": "int"}), "exit_lock_acquire": "bool",
                "new_process": ("rec", "Process", {"i": "int"}), "is_alive": "bool", "exit_acquire": "bool"}.get(method)

    def outcomes(self, method, args, kwargs, t, S):
        nm, n = self.name, self.n
        alive, started, joined, xl, nxt = (S[f"{nm}.{x}"] for x in ("alive", "started", "joined", "exitlock", "next"))
        if method == "new_exit_lock":
            # ctx.BoundedSemaphore(1): value 1, for the slot the next Process() will get
            return [Outcome(z3.ULT(nxt, BV(n)), {f"{nm}.exitlock": xl | onehot(nxt, n)}, ("rec", "ExitLock", {"i": nxt}), None, "ok")]
        i = as_idx(args[0]) if args else None
        if method == "exit_lock_acquire":
            return [Outcome(bit(xl, i, n), {f"{nm}.exitlock": xl & ~onehot(i, n)}, True, None, "ok")]
        if method == "new_process":
            # ghost: spawning must happen while the management lock is held (by somebody)
            return [Outcome(z3.ULT(nxt, BV(n)), {f"{nm}.next": nxt + 1,
                                                 f"{nm}.spawned_unlocked": z3.Or(S[f"{nm}.spawned_unlocked"], S["mgmt.sl.v"] != 0)},
                            ("rec", "Process", {"i": nxt}), None, "ok")]
        if method == "set_exit_lock":
            return [Outcome(T, {}, None, None, "ok")]
        if method == "start":
            return [Outcome(T, {f"{nm}.alive": alive | onehot(i, n), f"{nm}.started": started | onehot(i, n)}, None, None, "ok")]
        if method == "join":
            return [Outcome(z3.Not(bit(alive, i, n)), {f"{nm}.joined": joined | onehot(i, n)}, None, None, "ok")]
        if method == "is_alive":
            return [Outcome(T, {}, bit(alive, i, n), None, "read")]
        if method == "exit_release":
            held = z3.Not(bit(xl, i, n))
            return [Outcome(z3.Not(held), {}, None, "ValueError", "toomany"),
                    Outcome(held, {f"{nm}.exitlock": xl | onehot(i, n)}, None, None, "ok")]
        if method == "exit_acquire":
            # worker side: worker_exit_lock.acquire(True, timeout=30)
            return [Outcome(bit(xl, i, n), {f"{nm}.exitlock": xl & ~onehot(i, n)}, True, None, "ok"),
                    Outcome(z3.Not(bit(xl, i, n)), {}, False, None, "timeout")]
        if method == "die":
            return [Outcome(T, {f"{nm}.alive": alive & ~onehot(i, n)}, None, None, "ok")]
        if method == "crash":
            # environment: a running worker is killed from outside (enabled once it has been started)
            return [Outcome(bit(alive, i, n), {f"{nm}.alive": alive & ~onehot(i, n)}, None, None, "ok")]
        if method == "kill":
            # kill_process_tree(p): SIGKILL to the tree, then p.join() (the tree walk itself is C06)
            return [Outcome(T, {f"{nm}.alive": alive & ~onehot(i, n), f"{nm}.joined": joined | onehot(i, n)}, None, None, "ok")]
        raise KeyError(method)


class WaitModel(Model):
    """multiprocessing.connection.wait([result reader, wakeup reader] + sentinels): blocks until something is
    ready and reports everything that is ready (select semantics)."""
    METHODS = {"wait": []}

    def __init__(self, S, n):
        self.n = n

    def result_type(self, method):
        return ("rec", "Ready", {"res": "bool", "wake": "bool", "sent": "int"})

    def outcomes(self, method, args, kwargs, t, S):
        ws = args[0]
        if not (isinstance(ws, tuple) and ws[0] == "tuple" and ws[1][0] == "waitset"):
            raise ValueError(f"wait() on {ws!r}")
        objs = [o[1] for o in ws[1][1][1]]
        mask = ws[1][2]
        res = S["resq.pipe.n"] != 0 if "resq.r" in objs else z3.BoolVal(False)
        wake = S["wakeup.pipe.n"] != 0 if "wakeup.r" in objs else z3.BoolVal(False)
        dead = zk(mask) & ~S["ptable.alive"]
        return [Outcome(z3.Or(res, wake, dead != 0), {}, ("rec", "Ready", {"res": res, "wake": wake, "sent": dead}), None, "ready")]


class ResultWriter(Model):
    """Worker side of the result queue (environment): whole messages, blocks while the pipe is full."""
    METHODS = {"put_pid": [], "put_result": []}

    def __init__(self, pipe):
        self.pipe = pipe

    def outcomes(self, method, args, kwargs, t, S):
        p = self.pipe
        n = S[f"{p.name}.n"]

        def push(k, a, e, label):
            u = {f"{p.name}.n": n + 1}
            for j in range(p.cap):
                for f, val in (("k", BV(k)), ("a", zk(a)), ("e", e)):
                    u[f"{p.name}.{j}.{f}"] = z3.If(n == BV(j), val, S[f"{p.name}.{j}.{f}"])
            return Outcome(z3.ULT(n, BV(p.cap)), u, None, None, label)
        if method == "put_pid":
            return [push(1, as_idx(args[0]), z3.BoolVal(False), "pid")]
        if method == "put_result":
            i = as_idx(args[0])
            return [push(0, i, z3.BoolVal(False), "value"), push(0, i, z3.BoolVal(True), "exception")]
        raise KeyError(method)


class NoopModel(Model):
    def __init__(self, methods):
        self.METHODS = {m: [] for m in methods}

    def outcomes(self, method, args, kwargs, t, S):
        return [Outcome(T, {}, None, None, "ok")]


def _const_idx(x):
    if isinstance(x, tuple) and x[0] == "c":
        x = x[1]
    if not isinstance(x, int):
        raise Unsupported(f"sentinel membership with a non-constant index {x!r}")
    return x


class ClosableModel(Model):
    """One end of a pipe of which only the closing matters (ghost flag <name>.closed)."""
    METHODS = {"close": []}

    def __init__(self, name, S):
        self.name = name
        S.declare(f"{name}.closed", "bool", False)

    def outcomes(self, method, args, kwargs, t, S):
        return [Outcome(T, {f"{self.name}.closed": z3.BoolVal(True)}, None, None, "ok")]


class ExecSlice:
    """Object graph of one executor + manager thread, shared by all slices."""

    def __init__(self, n_ids=2, n_workers=2, callq_cap=3, wakeup_cap=1):
        import loky.backend.queues as lq
        import loky.backend.synchronize as sy
        import loky.process_executor as pe
        self.pe = pe
        self.ct = ClassTable([pe, lq, sy, drivers_exec])
        self.S = S = State()
        self.n, self.nw = n_ids, n_workers
        O = self.objects = {}
        # data structures
        O["pending"] = {"model": DictModel("pending", S, n_ids, "WorkItem", init=None)}
        O["running"] = {"model": ListModel("running", S, n_ids, init=None)}
        O["workids"] = {"model": WorkIdsModel("workids", S, None, None)}
        O["futures"] = {"model": FutureTable("futures", S, n_ids)}
        O["processes"] = {"model": DictModel("processes", S, n_workers, "Process", init=None)}
        O["ptable"] = {"model": ProcessTable("ptable", S, n_workers, alive=None, started=None, exitlock=None)}
        O["callq.m"] = {"model": CallQueueModel("callq", S, n_ids, callq_cap)}
        # locks
        O["shutdown_lock"] = {"model": ThreadLockModel("shutdown_lock", SEMAPHORE, 1, 1, 1, S)}
        self.mgmt = make_semlock_obj(O, self.ct, S, "mgmt", "Lock", 1)
        # wakeup pipe
        self.wpipe = PipeState("wakeup.pipe", S, wakeup_cap, init_count=None)  # symbolic: wake-ups may already be queued
        O["wakeup.r"] = {"model": ConnModel(self.wpipe)}
        O["wakeup.w"] = {"model": ConnModel(self.wpipe)}
        O["wakeup"] = {"cls": "_ThreadWakeup", "model": FieldsModel("wakeup", S, {"_closed": ("bool", False)}, fused_reads=["_closed"]),
                       "attrs": {"_closed": ("field",), "_reader": ObjRef("wakeup.r"), "_writer": ObjRef("wakeup.w")}}
        # result pipe: messages (k: 0 result item, 1 pid, 2 remote traceback; a: work id / pid; e: has exception)
        self.rpipe = PipeState("resq.pipe", S, 2, fields=[("k", "int"), ("a", "int"), ("e", "bool")])
        O["resq.r"] = {"model": ConnModel(self.rpipe, "Msg")}
        O["resq"] = {"attrs": {"_reader": ObjRef("resq.r")}, "model": NoopModel(["close"])}
        O["resq.w"] = {"model": ResultWriter(self.rpipe)}
        O["waiter"] = {"model": WaitModel(S, n_workers)}
        # flags
        O["flags"] = {"cls": "_ExecutorFlags",
                      # flags are written under the shutdown lock; a user thread reads them while holding that lock
                      # (submit), so for user threads the read is atomic with the lock acquisition
                      "model": FieldsModel("flags", S, {"shutdown": ("bool", None), "broken": (("ref", "bpe"), None),
                                                         "kill_workers": ("bool", False)},
                                           fused_reads={"shutdown": lambda t: t.name.startswith("U"),
                                                        "broken": lambda t: t.name.startswith("U")}),
                      "attrs": {"shutdown": ("field",), "broken": ("field",), "kill_workers": ("field",),
                                "shutdown_lock": ObjRef("shutdown_lock")}}
        # the fused reads above are only sound if every write of a flag happens under the shutdown lock: a ghost
        # records a write made while the lock is free (checked as a safety clause of every executor slice)
        S.declare("g.flag_written_unlocked", "bool", False)
        fm = O["flags"]["model"]
        base_outcomes = fm.outcomes

        def flag_outcomes(method, args, kwargs, t, S_):
            outs = base_outcomes(method, args, kwargs, t, S_)
            if method.startswith("set:"):
                for o in outs:
                    o.updates["g.flag_written_unlocked"] = z3.Or(S_["g.flag_written_unlocked"], S_["shutdown_lock.v"] != 0)
            return outs
        fm.outcomes = flag_outcomes
        O["bpe"] = {"attrs": {}}
        # the executor object and the manager thread's view of it
        O["ex"] = {"cls": "ProcessPoolExecutor",
                   "model": FieldsModel("ex", S, {"_queue_count": ("int", None), "_max_workers": ("int", None),
                                                   "_executor_manager_thread": (("ref", "mt"), None),
                                                   "_processes_management_lock": (("ref", "mgmt"), None),
                                                   "_executor_manager_thread_wakeup": (("ref", "wakeup"), None),
                                                   "_call_queue": (("ref", "callq"), None),
                                                   "_result_queue": (("ref", "resq"), None)},
                                       # _queue_count is only touched by submit() under the shutdown lock;
                                       # _max_workers only changes in _resize (not part of these slices)
                                       fused_reads=["_max_workers", "_queue_count"]),
                   "attrs": {"_flags": ObjRef("flags"), "_pending_work_items": ObjRef("pending"),
                             "_running_work_items": ObjRef("running"), "_work_ids": ObjRef("workids"),
                             "_queue_count": ("field",), "_max_workers": ("field",), "_processes": ObjRef("processes"),
                             "_shutdown_lock": ObjRef("shutdown_lock"), "_context": ObjRef("ctx"),
                             "_processes_management_lock": ("field",), "_executor_manager_thread": ("field",),
                             "_executor_manager_thread_wakeup": ("field",), "_call_queue": ("field",),
                             "_result_queue": ("field",), "_initializer": "<init>", "_initargs": "<initargs>",
                             "_timeout": "<timeout>", "_env": "<env>"}}
        O["callq.r"] = {"model": ClosableModel("callq.r", S)}
        O["callq"] = {"cls": "_SafeQueue", "model": O["callq.m"]["model"],
                      "attrs": {"_reader": ObjRef("callq.r"), "thread_wakeup": ObjRef("wakeup"), "shutdown_lock": ObjRef("shutdown_lock"),
                                "pending_work_items": ObjRef("pending"), "running_work_items": ObjRef("running"),
                                "_maxsize": callq_cap}}
        S.declare("weakref.dead", "bool", None)
        O["mt"] = {"cls": "_ExecutorManagerThread", "model": NoopModel(["start", "join"]),
                   "attrs": {"thread_wakeup": ObjRef("wakeup"), "shutdown_lock": ObjRef("shutdown_lock"),
                             "executor_flags": ObjRef("flags"), "processes": ObjRef("processes"),
                             "call_queue": ObjRef("callq"), "result_queue": ObjRef("resq"),
                             "work_ids_queue": ObjRef("workids"), "pending_work_items": ObjRef("pending"),
                             "running_work_items": ObjRef("running"), "processes_management_lock": ObjRef("mgmt"),
                             "executor_reference": ("bound", "weakref", "deref")}}
        wr = ObsModel(S)
        wr.define("deref", lambda a, k, t, S_: [Outcome(T, {}, ("rec", "Ref:ex", {"?": z3.Not(S_["weakref.dead"])}), None, "read")],
                  ("rec", "Ref:ex", {"?": "bool"}))
        O["weakref"] = {"model": wr}
        O["ctx"] = {"attrs": {"BoundedSemaphore": ("bound", "ptable", "new_exit_lock"),
                              "Process": ("bound", "ptable", "new_process")}}
        self.obs = ObsModel(S)
        O["obs"] = {"model": self.obs}
        self.comp = comp = Compiler(self.ct, O, opaque_calls=["mp.util.debug", "mp.util.info", "warnings.warn",
                                                              "traceback.format_exception", "LOGGER.critical",
                                                              "util.debug", "util.info", "sleep",
                                                              "get_exitcodes_terminated_worker",
                                                              "self._start_executor_manager_thread"])
        comp.unroll = {"pending": n_ids, "processes": n_workers}
        comp.declare_auto_fields(S)
        comp.globals = {"_global_shutdown": ("c", False), "_CURRENT_DEPTH": ("c", 0), "_process_worker": ("c", "<worker>"),
                        "sys": ("o", "sysmod"), "queue": ("o", "queuemod"), "struct": ("o", "structmod"),
                        "wait": ("prim", "waiter", "wait"), "kill_process_tree": ("prim", "ptable", "kill")}
        comp.ref_exc = {"bpe": "BrokenProcessPool"}
        O["sysmod"] = {"attrs": {"platform": "linux"}}
        O["queuemod"] = {"attrs": {"Empty": ("type", "Empty"), "Full": ("type", "Full")}}
        O["structmod"] = {"attrs": {"error": ("type", "struct.error")}}
        self.setup_records()
        self.sys = System(O, S)
        self.sys._keep = set()
        self.threads = []
        self.thread_specs = {}

    # ------------------------------------------------------------------ record tables
    def setup_records(self):
        c = self.comp
        opaque = lambda f: ("c", "<opaque>")
        for a in ("fn", "args", "kwargs"):
            c.rec_attrs[("WorkItem", a)] = opaque
            c.rec_attrs[("CallItem", a)] = opaque
        c.rec_attrs[("WorkItem", "future")] = lambda f: ("rec", "Future", {"i": f["i"]})
        c.rec_attrs[("CallItem", "work_id")] = lambda f: f["i"]
        for m in ("set_running_or_notify_cancel", "cancel", "cancelled", "done", "set_result", "set_exception"):
            c.rec_methods[("Future", m)] = ("futures", m, lambda f: [f["i"]])
        # messages of the result queue
        c.rec_attrs[("Msg", "work_id")] = lambda f: f["a"]
        c.rec_attrs[("Msg", "exception")] = lambda f: ("ite", f["e"], ("rec", "Exc", {"t": ("c", 2), "?": ("c", True)}),
                                                       ("rec", "Exc", {"t": ("c", 0), "?": ("c", False)})) \
            if False else ("rec", "Exc", {"t": ("c", 2), "?": f["e"]})
        c.rec_attrs[("Msg", "result")] = lambda f: ("c", "<value>")
        c.rec_attrs[("Msg", "__isinstance__")] = lambda f, ty: (
            ("cmp", "==", f["k"], ("c", 1)) if ty == ("c", ("type", "int")) else
            ("cmp", "==", f["k"], ("c", 2)) if ty == ("c", ("type", "_RemoteTraceback")) else _unsup(f"isinstance(msg, {ty})"))
        c.rec_attrs[("CallItem", "__isinstance__")] = lambda f, ty: ("c", ty == ("c", ("type", "_CallItem")))
        c.rec_attrs[("Err", "__isinstance__")] = lambda f, ty: f["big"] if ty == ("c", ("type", "struct.error")) else _unsup(f"isinstance(err, {ty})")
        c.rec_attrs[("Ready", "__contains__")] = lambda f, a: (
            f["res"] if a == ("o", "resq.r") else f["wake"] if a == ("o", "wakeup.r") else
            ("bit", f["sent"], _const_idx(a[2]["i"])) if isinstance(a, tuple) and a[:2] == ("rec", "Sentinel") else
            _unsup(f"{a} in ready"))
        # processes
        c.rec_attrs[("Process", "pid")] = lambda f: f["i"]
        c.rec_attrs[("Process", "sentinel")] = lambda f: ("rec", "Sentinel", {"i": f["i"]})
        c.rec_attrs[("Process", "exitcode")] = lambda f: ("c", "<exitcode>")
        c.rec_attrs[("Process", "name")] = lambda f: ("c", "<name>")
        c.rec_attrs[("Process", "_worker_exit_lock")] = lambda f: ("rec", "ExitLock", {"i": f["i"]})
        c.rec_methods[("Process", "set:_worker_exit_lock")] = ("ptable", "set_exit_lock", lambda f: [f["i"]])
        for m in ("start", "join", "is_alive"):
            c.rec_methods[("Process", m)] = ("ptable", m, lambda f: [f["i"]])
        c.rec_methods[("ExitLock", "release")] = ("ptable", "exit_release", lambda f: [f["i"]])
        c.rec_methods[("ExitLock", "acquire")] = ("ptable", "exit_lock_acquire", lambda f: [f["i"]])
        # constructors
        c.ctors["_CallItem"] = lambda a, k: ("rec", "CallItem", {"i": a[0]})
        c.ctors["_WorkItem"] = lambda a, k: ("rec", "WorkItem", {"i": a[0][2]["i"]})
        c.ctors["_RemoteTraceback"] = lambda a, k: ("c", "<remote traceback>")
        c.ctors["_ExecutorManagerThread"] = lambda a, k: ("o", "mt")
        for name, tag in EXC_TAGS.items():
            c.ctors[name] = (lambda tag: lambda a, k: ("rec", "Exc", {"t": ("c", tag), "?": ("c", True)}))(tag)
        self.comp.globals["Future"] = ("prim", "futures", "alloc")

    # ------------------------------------------------------------------ E-SIM glue
    drivers = drivers_exec

    def real_class(self, owner):
        import loky.backend.queues as lq
        import loky.backend.synchronize as sy
        for mod in (self.pe, lq, sy):
            if hasattr(mod, owner):
                return getattr(mod, owner)
        raise Unsupported(f"no real class {owner}")

    @property
    def to_python(self):
        pe = self.pe

        def msg(world, f):
            if f["k"] == 1:
                return int(f["a"])
            if f["k"] == 2:
                return pe._RemoteTraceback("tb")
            return pe._ResultItem(int(f["a"]), exception=(ValueError("task failed") if f["e"] else None), result="<value>")
        import struct
        return {"Msg": msg,
                "CallItem": lambda w, f: pe._CallItem(int(f["i"]), len, (), {}),
                "Ref:bpe": lambda w, f: pe.BrokenProcessPool("the stored broken-pool error"),
                "Err": lambda w, f: struct.error("too large") if f["big"] else ValueError("cannot pickle")}

    @property
    def from_python(self):
        pe = self.pe
        return [
            (pe._CallItem, lambda w, x: ("rec", "CallItem", {"i": int(x.work_id)})),
            (pe._WorkItem, lambda w, x: ("rec", "WorkItem", {"i": w.from_python(x.future)[2]["i"]})),
            (pe._ResultItem, lambda w, x: ("rec", "Msg", {"k": 0, "a": int(x.work_id), "e": x.exception is not None, "?": True})),
        ]

    def patch_real_module(self, world):
        """Substitute the module globals that the compiler binds to models/constants."""
        from .replay_generic import StaticProxy
        pe = self.pe
        patches = []

        def patch(mod, name, val):
            patches.append((mod, name, getattr(mod, name)))
            setattr(mod, name, val)
        for name, g in self.comp.globals.items():
            if not hasattr(pe, name):
                continue
            if g[0] == "prim":
                patch(pe, name, (lambda o, m: lambda *a, **k: StaticProxy(world, o)._call(m, *a, **k))(g[1], g[2]))
            elif g[0] == "c" and name.startswith("_") and not isinstance(g[1], str):
                patch(pe, name, g[1])
        import types
        quiet = types.SimpleNamespace(debug=lambda *a, **k: None, info=lambda *a, **k: None)
        patch(pe, "mp", types.SimpleNamespace(util=quiet))
        patch(pe, "warnings", types.SimpleNamespace(warn=lambda *a, **k: None))
        for dotted in self.comp.opaque:
            if dotted.startswith("self."):  # methods assumed away in the model are not executed in the replay either
                for cls in (pe.ProcessPoolExecutor, pe._ExecutorManagerThread):
                    if hasattr(cls, dotted[5:]):
                        patch(cls, dotted[5:], lambda self_, *a, **k: None)
            elif "." not in dotted and hasattr(pe, dotted):
                patch(pe, dotted, lambda *a, **k: "<opaque>")
        return patches

    # ------------------------------------------------------------------ threads
    def thread(self, name, fn, args, proc=0):
        self.thread_specs[name] = (fn, list(args))
        fdef, _ = self.ct.funcs[fn]
        end = lambda r: Node("end", value=None, label="end")
        ctx = Ctx(self.comp, "top", {}, end, [], [], [])
        entry = self.comp.inline(fdef, args, {}, ctx, end, fn)
        t = self.sys.add_thread(name, proc, entry)
        self.threads.append(t)
        return t

    def finish(self):
        self.sys._keep |= {n for n in self.S.decl if n.startswith(("in.", "g."))}
        self.sys.build()
        self.functions = sorted(self.comp.used_functions)
        return self

    def all_ended(self):
        return z3.And(*[self.S[t.pcvar] == z3.BitVecVal(END, 8) for t in self.sys.threads])


def _unsup(msg):
    raise Unsupported(msg)
