"""Verification drivers for the executor slices (harness code compiled by the same front end)."""
from loky.process_executor import BrokenProcessPool, ShutdownExecutorError  # noqa: F401 (real classes at replay time)


def manager_dispatch(mt):
    mt.add_call_item_to_queue()


def user_cancel(f, obs):
    r = f.cancel()
    obs.cancel_returned(f, r)


def feeder_fail_one(callq, obs):
    obj = callq.take_failed_item()
    callq._on_queue_feeder_error(obs.the_error(), obj)


def manager_pid_message(mt, msg):
    mt.process_result_item(msg)


def manager_result_message(mt, msg):
    mt.process_result_item(msg)


def user_submit(ex, obs):
    try:
        f = ex.submit(obs.task())
    except ShutdownExecutorError:
        obs.rejected()
    except BrokenProcessPool:
        obs.rejected()
    else:
        obs.submitted(f)


def user_shutdown_nowait(ex):
    ex.shutdown(False)


def manager_wait_once(mt, obs):
    item, broken, bpe = mt.wait_result_broken_or_wakeup()
    obs.waited(broken)
    if mt.is_shutting_down():
        obs.saw_shutdown()


def manager_watch(mt, obs):
    # the manager thread's loop reduced to its wait: it ends when it declares the pool broken
    while True:
        item, broken, bpe = mt.wait_result_broken_or_wakeup()
        if broken:
            obs.waited(broken)
            return


def manager_detect(mt, obs):
    # one turn of the manager thread's loop on the crash path (real run(): wait, then terminate_broken)
    item, broken, bpe = mt.wait_result_broken_or_wakeup()
    if broken:
        obs.waited(broken)
        mt.terminate_broken(bpe)


def crashing_worker(ptable, me):
    # environment: worker `me` is killed at an arbitrary instant after it was started
    ptable.crash(me)


def manager_terminate(mt, obs):
    mt.terminate_broken(obs.the_bpe())


def leaving_worker(ptable, me):
    # a worker that has announced its exit: waits for its exit lock (with loky's 30 s timeout), then ends
    ptable.exit_acquire(me)
    ptable.die(me)


def reuser(RX, obs, mw, cfg):
    ex, reused = RX.get_reusable_executor(max_workers=mw, timeout=cfg)
    obs.got(ex, reused)


def manager_run(mt):
    mt.run()


def env_worker(callq, resq_w, ptable, me):
    # environment: a worker of the pool (the real _process_worker is checked by the C04/C07 harnesses)
    while True:
        item = callq.worker_get()
        if item is None:
            resq_w.put_pid(me)
            ptable.exit_acquire(me)
            ptable.die(me)
            return
        resq_w.put_result(item)


def env_worker_holding(callq, resq_w, ptable, me, item):
    # the same worker, already holding a dispatched call item
    resq_w.put_result(item)
    env_worker(callq, resq_w, ptable, me)


def tracker_user(rt, obs):
    rt.ensure_running()
    obs.ensured()
