"""C04: task-level failures are contained (real _feed, _on_queue_feeder_error,
_process_worker, _ExceptionWithTraceback/_rebuild_exc, Future._invoke_callbacks)."""
import collections
import pickle
import struct
from typing import List

import loky._base as lbase
import loky.backend.queues as lq
import loky.process_executor as pe
from loky._base import Future
from loky.process_executor import (_CallItem, _ExceptionWithTraceback,
                                   _RemoteTraceback, _ResultItem, _SafeQueue,
                                   _WorkItem)

from .fakes import NS, FakeLock, FakeWakeup, Log


def _conc(o, hi):
    """Concretise a small symbolic int by branching in harness code (so that the
    real code under test never raises CrossHair control exceptions inside its own
    `except BaseException` handlers)."""
    for v in range(hi + 1):
        if o == v:
            return v
    return hi


class _Item:
    def __init__(self, k, outcome):
        self.k, self.outcome = k, outcome


class _Wire:
    def __init__(self, item):
        self.item = item


class _NotEmpty:
    def __init__(self, log):
        self.log = log

    def acquire(self):
        self.log.add("ne-acq")

    def release(self):
        self.log.add("ne-rel")

    def wait(self):
        raise RuntimeError("harness: feeder waited on a non-empty buffer")


def check_feed(outcomes: List[int]) -> bool:
    """
    pre: len(outcomes) <= 4
    pre: all(0 <= o <= 4 for o in outcomes)
    post: _
    """
    # outcome of each item: 0 sent; 1 pickling raises PicklingError; 2 send raises struct.error (too large);
    # 3 pickling raises SystemExit (a __reduce__ calling sys.exit(): not an Exception subclass); 4 send raises OSError
    outcomes = [_conc(o, 4) for o in outcomes]
    log = Log()
    items = [_Item(k, o) for k, o in enumerate(outcomes)]
    buf = collections.deque(items + [lq._sentinel])
    wlock = FakeLock(log, "wlock")

    def dumps(obj, reducers=None):
        if obj.outcome == 1:
            raise pickle.PicklingError("cannot pickle")
        if obj.outcome == 3:
            raise SystemExit(3)
        return _Wire(obj)  # the pickled bytes are not the item

    def send_bytes(wire):
        if not isinstance(wire, _Wire):
            raise RuntimeError("harness: something else than the pickled form was sent")
        obj = wire.item
        if not wlock.held:
            raise RuntimeError("send outside write lock")
        if obj.outcome == 2:
            raise struct.error("too large")
        if obj.outcome == 4:
            raise OSError(5, "Input/output error")
        log.add("sent", obj.k)

    errs = []
    sem = []
    old = lq.dumps
    lq.dumps = dumps
    try:
        lq.Queue._feed(buf, _NotEmpty(log), send_bytes, wlock, lambda: log.add("closed"),
                       None, False, lambda e, obj: errs.append((e, obj)),
                       NS(release=lambda: sem.append(len(errs))))
    finally:
        lq.dumps = old
    sent = [e[1] for e in log if e[0] == "sent"]
    if sent != [k for k, o in enumerate(outcomes) if o == 0]:
        return False  # later items are still sent, in order
    bad = [it for it in items if it.outcome != 0]
    if [o for _, o in errs] != bad:
        return False  # onerror gets that very object
    for e, o in errs:
        if o.outcome == 1 and not isinstance(e, pickle.PicklingError):
            return False
        if o.outcome == 2 and not isinstance(e, struct.error):
            return False
        if o.outcome == 3 and not isinstance(e, SystemExit):
            return False
        if o.outcome == 4 and not isinstance(e, OSError):
            return False
    # the slot is released exactly once per failed item, before onerror runs
    if sem != list(range(len(bad))):
        return False
    return (not wlock.held) and log.count("closed") == 1 and len(buf) == 0


def check_feeder_error(present: List[bool], running: List[bool], wid: int, too_large: bool) -> bool:
    """
    pre: len(present) == 3 and len(running) == 3
    pre: 0 <= wid <= 2 and running[wid]
    post: _
    """
    wid = _conc(wid, 2)
    log = Log()
    sl = FakeLock(log, "shutdown_lock")
    pending, futs = {}, {}
    for i in range(3):
        if present[i]:
            f = Future()
            f.set_running_or_notify_cancel()
            # a done-callback that calls back into the executor (submit / shutdown take the non-reentrant
            # shutdown lock): the lock must be free whenever user callbacks run
            f.add_done_callback(lambda fut, i=i: log.add("cb", i, sl.held))
            futs[i] = f
            pending[i] = _WorkItem(f, len, (i,), {})
    run = [i for i in range(3) if running[i]]
    fake = NS(pending_work_items=pending, running_work_items=run,
              thread_wakeup=FakeWakeup(log, sl), shutdown_lock=sl)
    e = struct.error("x") if too_large else ValueError("unpicklable")
    obj = _CallItem(wid, len, (wid,), {})
    _SafeQueue._on_queue_feeder_error(fake, e, obj)
    if wid in pending or wid in run:
        return False
    if run != [i for i in range(3) if running[i] and i != wid]:
        return False
    for i, f in futs.items():
        if i == wid:
            ex = f.exception(timeout=0)
            want = RuntimeError if too_large else pickle.PicklingError
            if type(ex) is not want or not isinstance(ex.__cause__, _RemoteTraceback):
                return False
            if type(e).__name__ not in str(ex.__cause__):
                return False
        elif f.done() or i not in pending:
            return False
    if any(e[0] == "cb" and e[2] for e in log):
        return False  # done-callbacks ran while the shutdown lock was held: a callback that re-submits deadlocks
    return log.count("wakeup", True) == 1 and not sl.held


class _TaskErr(Exception):
    pass


class _TB:
    """Formatting is not the subject: cheap stand-in for the `traceback` module
    inside loky.process_executor (keeps symbolic values out of string formatting)."""

    @staticmethod
    def format_exception(t, e, tb):
        return ["Traceback (stub)\n", t.__name__]

    @staticmethod
    def format_exc():
        return "Traceback (stub)"


def _with_tb_stub(fn):
    old = pe.traceback
    pe.traceback = _TB
    try:
        return fn()
    finally:
        pe.traceback = old


class _CQ:
    def __init__(self, seq):
        self.seq = list(seq)
        self.gets = 0

    def get(self, block=True, timeout=None):
        self.gets += 1
        return self.seq.pop(0)


class _RQ:
    def __init__(self, fail_first_put_for):
        self.items = []
        self.fail = set(fail_first_put_for)

    def put(self, obj):
        wid = getattr(obj, "work_id", None)
        if wid in self.fail and obj.exception is None:
            self.fail.discard(wid)
            raise pickle.PicklingError("result not picklable")
        self.items.append(obj)


def _body(kind, v):
    if kind == 1:
        raise _TaskErr(v, "task")
    if kind == 2:
        raise SystemExit(v)
    if kind == 3:
        raise KeyboardInterrupt(v)
    return ("val", v)


def _run_worker(kinds, vals, initializer=None, initargs=(), depth=1, timeout=None, mgmt_free=True):
    log = Log()
    calls = [_CallItem(10 + k, _body, (kinds[k], vals[k]), {}) for k in range(len(kinds))]
    cq = _CQ(calls + [None])
    rq = _RQ([10 + k for k in range(len(kinds)) if kinds[k] == 4])
    saved = (pe._global_shutdown, pe._CURRENT_DEPTH, pe._enable_faulthandler_if_needed,
             pe._USE_PSUTIL, getattr(pe, "_get_memory_usage", None))
    saved_time = pe.time
    pe.time = lambda: 0.0  # the clock is not the subject here (CrossHair would make it a symbolic float)
    pe._enable_faulthandler_if_needed = lambda: None
    pe._USE_PSUTIL = True
    pe._get_memory_usage = lambda pid, force_gc=False: 0
    exit_lock = FakeLock(log, "exit")
    try:
        ret = pe._process_worker(cq, rq, initializer, initargs, FakeLock(log, "mgmt", held=not mgmt_free),
                                 timeout, exit_lock, depth)
        depth_seen = pe._CURRENT_DEPTH
        gs = pe._global_shutdown
    finally:
        pe.time = saved_time
        (pe._global_shutdown, pe._CURRENT_DEPTH, pe._enable_faulthandler_if_needed,
         pe._USE_PSUTIL) = saved[:4]
        if saved[4] is not None:
            pe._get_memory_usage = saved[4]
    return ret, cq, rq, log, depth_seen, gs, exit_lock


def check_worker_contains_2(kinds: List[int], vals: List[int]) -> bool:
    """
    pre: len(kinds) <= 2 and len(vals) == len(kinds)
    pre: all(0 <= k <= 4 for k in kinds)
    post: _
    """
    return _worker_contains(kinds, vals)


def check_worker_contains_3(kinds: List[int], vals: List[int]) -> bool:
    """
    pre: len(kinds) <= 3 and len(vals) == len(kinds)
    pre: all(0 <= k <= 4 for k in kinds)
    post: _
    """
    return _worker_contains(kinds, vals)


def check_worker_contains_probe(kinds: List[int]) -> bool:
    """
    pre: len(kinds) <= 2
    pre: all(0 <= k <= 4 for k in kinds)
    post: _
    """
    return _worker_contains(kinds, [5] * len(kinds))


def _worker_contains(kinds, vals):
    import os
    kinds = [_conc(k, 4) for k in kinds]
    ret, cq, rq, log, _, _, exit_lock = _with_tb_stub(lambda: _run_worker(kinds, vals))
    if ret is not None or len(rq.items) != len(kinds) + 1:
        return False
    for k, kind in enumerate(kinds):  # exactly one result per call item, in order
        it = rq.items[k]
        if not isinstance(it, _ResultItem) or it.work_id != 10 + k:
            return False
        if kind == 0:
            if it.exception is not None or it.result != ("val", vals[k]):
                return False
            continue
        if not isinstance(it.exception, _ExceptionWithTraceback) or it.result is not None:
            return False
        ex = it.exception.exc
        want = {1: _TaskErr, 2: SystemExit, 3: KeyboardInterrupt, 4: pickle.PicklingError}[kind]
        if type(ex) is not want:
            return False
        if kind in (1, 2, 3) and ex.args[0] != vals[k]:
            return False
        if type(ex).__name__ not in it.exception.tb:
            return False
    # the worker kept serving until the sentinel, then announced its pid and left cleanly
    return rq.items[-1] == os.getpid() and cq.gets == len(kinds) + 1 and exit_lock.held


def check_rebuild_exc(kind: int, a: int, b: int) -> bool:
    """
    pre: 0 <= kind <= 3
    post: _
    """
    kind = _conc(kind, 3)
    cls = [ValueError, _TaskErr, SystemExit, KeyboardInterrupt][kind]
    try:
        raise cls(a, b)
    except BaseException as e:  # noqa: harness builds the exception with a traceback
        if type(e) is not cls:
            raise
        ewt = _with_tb_stub(lambda: _ExceptionWithTraceback(e))
        orig = e
    f, args = ewt.__reduce__()
    out = f(*args)
    return (out is orig and type(out) is cls and out.args == (a, b)
            and isinstance(out.__cause__, _RemoteTraceback)
            and cls.__name__ in str(out.__cause__) and "Traceback" in str(out.__cause__))


class _Unsendable(Exception):
    """A cause / context that cannot be pickled (it holds a lock), as a failed connection or a cursor would."""

    def __init__(self, *a):
        super().__init__(*a)
        import threading
        self.lock = threading.Lock()


def check_exc_payload_sendable(kind: int, chain: int, a: int) -> bool:
    """
    pre: 0 <= kind <= 1 and 0 <= chain <= 4 and 0 <= a <= 3
    post: _
    """
    # The worker puts _ResultItem(exception=_ExceptionWithTraceback(e)) on the result queue with a bare put(): if that
    # payload cannot be pickled the *worker* dies and the whole pool breaks.  Containment therefore needs: whenever
    # the task's exception itself is picklable, so is the payload - whatever hangs off the exception (explicit cause,
    # implicit context, each picklable or not).  The chain travels as text in the remote traceback.
    import pickle
    kind, chain, a = _conc(kind, 1), _conc(chain, 4), _conc(a, 3)
    cls = [ValueError, _TaskErr][kind]

    def body():
        try:
            try:
                if chain in (1, 3):
                    raise KeyError("picklable-origin")
                if chain in (2, 4):
                    raise _Unsendable("unsendable-origin")
                raise cls(a, "plain")
            except (KeyError, _Unsendable) as origin:
                if chain in (1, 2):
                    raise cls(a, "from") from origin  # explicit cause
                raise cls(a, "during")  # implicit context
        except cls as e:
            return e, _ExceptionWithTraceback(e)

    try:
        from crosshair.tracers import NoTracing, is_tracing
        if is_tracing():
            with NoTracing():
                e, ewt = body()
                blob = pickle.dumps(ewt)
                out = pickle.loads(blob)
        else:
            e, ewt = body()
            out = pickle.loads(pickle.dumps(ewt))
    except ImportError:
        e, ewt = body()
        out = pickle.loads(pickle.dumps(ewt))
    if type(out) is not cls or out.args != e.args or not isinstance(out.__cause__, _RemoteTraceback):
        return False
    text = str(out.__cause__)
    if cls.__name__ not in text:
        return False
    # the origin of the chain is visible to the user in the remote traceback text
    if chain in (1, 3) and "picklable-origin" not in text:
        return False
    if chain in (2, 4) and "unsendable-origin" not in text:
        return False
    return True


def check_callbacks(kinds: List[int]) -> bool:
    """
    pre: len(kinds) <= 4
    pre: all(0 <= k <= 3 for k in kinds)
    post: _
    """
    kinds = [_conc(k, 3) for k in kinds]
    ran = []

    import functools

    def body(i, kind, fut):
        ran.append(i)
        if kind == 1:
            raise ValueError(i)
        if kind == 2:
            raise SystemExit(i)
        if kind == 3:
            raise KeyboardInterrupt(i)

    class _CallableObj:
        def __init__(self, i, kind):
            self.i, self.kind = i, kind

        def __call__(self, fut):
            body(self.i, self.kind, fut)

    def mk(i, kind):
        # callbacks come in every callable shape: plain functions, functools.partial objects (no __name__),
        # instances with __call__ (what joblib attaches)
        shape = (i + kind) % 3
        if shape == 0:
            return lambda fut: body(i, kind, fut)
        if shape == 1:
            return functools.partial(body, i, kind)
        return _CallableObj(i, kind)

    f = Future()
    for i, k in enumerate(kinds):
        f.add_done_callback(mk(i, k))
    logged = []
    old = lbase.LOGGER
    lbase.LOGGER = NS(exception=lambda *a, **k: logged.append(a))
    try:
        f.set_result(5)  # must not propagate anything, BaseException included
    finally:
        lbase.LOGGER = old
    return ran == list(range(len(kinds))) and f.result(timeout=0) == 5 and \
        len(logged) == sum(1 for k in kinds if k)


def check_process_chunk_raises(kinds: List[int], vals: List[int]) -> bool:
    """
    pre: 1 <= len(kinds) <= 3 and len(vals) == len(kinds)
    pre: all(0 <= k <= 4 for k in kinds)
    post: _
    """
    # map(): a chunk is run by the real _process_chunk in the worker; whatever an item raises (StopIteration
    # included) must come out of it unchanged so that _process_worker reports it for that chunk's future
    kinds = [_conc(k, 4) for k in kinds]

    def fn(kind, v):
        if kind == 1:
            raise _TaskErr(v)
        if kind == 2:
            raise StopIteration(v)
        if kind == 3:
            raise KeyboardInterrupt(v)
        if kind == 4:
            raise SystemExit(v)
        return ("val", v)
    chunk = tuple((k, v) for k, v in zip(kinds, vals))
    first_bad = next((i for i, k in enumerate(kinds) if k), None)
    try:
        out = pe._process_chunk(fn, chunk)
    except BaseException as e:  # noqa: harness inspects which exception escaped
        if first_bad is None:
            raise
        want = {1: _TaskErr, 2: StopIteration, 3: KeyboardInterrupt, 4: SystemExit}[kinds[first_bad]]
        if type(e) is not want:
            raise
        return e.args == (vals[first_bad],)
    return first_bad is None and out == [("val", v) for v in vals]
