"""C12: control logic around the tracker (real ensure_running, real
get_preparation_data -> prepare round trip)."""
from typing import List

import multiprocessing.resource_tracker as mprt

import loky.backend.resource_tracker as rt
import loky.backend.spawn as sp

from .fakes import NS, Log


class _Kernel:
    def __init__(self, log):
        self.log = log
        self.open = set()
        self.next = 10
        self.bad = False

    def pipe(self):
        r, w = self.next, self.next + 1
        self.next += 2
        self.open |= {r, w}
        self.log.add("pipe", r, w)
        return r, w

    def close(self, fd):
        if fd not in self.open:
            self.bad = True  # double close / close of a foreign descriptor
        self.open.discard(fd)
        self.log.add("close", fd)


def check_ensure_running(alive: List[bool], spawn_ok: List[bool], reap_fails: List[bool], from_thread: bool = False) -> bool:
    """
    pre: 1 <= len(alive) <= 3 and len(spawn_ok) == len(alive) and len(reap_fails) == len(alive)
    post: _
    """
    if not from_thread:
        return _ensure_running(alive, spawn_ok, reap_fails)
    # the same from a helper thread (executor manager thread, user thread): the signal mask is per thread and the
    # tracker inherits the mask of the thread that spawns it, so SIGINT/SIGTERM must be blocked across the spawn
    # whichever thread (re-)launches the tracker
    import threading
    alive = [True if a else False for a in alive]
    spawn_ok = [True if a else False for a in spawn_ok]
    reap_fails = [True if a else False for a in reap_fails]
    out = []

    def run():
        t = threading.Thread(target=lambda: out.append(_ensure_running(alive, spawn_ok, reap_fails)), name="helper")
        t.start()
        t.join()
    try:
        from crosshair.tracers import NoTracing, is_tracing
        if is_tracing():
            with NoTracing():
                run()
        else:
            run()
    except ImportError:
        run()
    return out == [True]


def _ensure_running(alive, spawn_ok, reap_fails):
    import signal
    log = Log()
    k = _Kernel(log)
    step = [0]
    pids = [100]

    def waitpid(pid, flag):
        log.add("waitpid", pid)
        if reap_fails[step[0]]:
            raise ChildProcessError()
        return pid, 0

    blocked = [False]

    def sigmask(how, sigs):
        blocked[0] = how == signal.SIG_BLOCK
        log.add("mask", "block" if blocked[0] else "unblock", tuple(int(s) for s in sigs))

    def spawnv(exe, args, fds):
        log.add("spawn", tuple(fds), blocked[0])
        if not spawn_ok[step[0]]:
            raise OSError("spawn failed")
        pids[0] += 1
        return pids[0]

    saved = (rt.os, rt.spawnv_passfds, rt.signal, rt.sys, rt.warnings)
    rt.os = NS(pipe=k.pipe, close=k.close, waitpid=waitpid, name="posix")
    rt.spawnv_passfds = spawnv
    rt.signal = NS(pthread_sigmask=sigmask, SIG_BLOCK=signal.SIG_BLOCK, SIG_UNBLOCK=signal.SIG_UNBLOCK)
    rt.sys = NS(stderr=NS(fileno=lambda: 2), platform="linux")
    rt.warnings = NS(warn=lambda m, *a, **kw: log.add("warn"))
    tr = rt.ResourceTracker()
    ok = True
    try:
        for i in range(len(alive)):
            step[0] = i
            tr._check_alive = lambda: (log.add("probe"), alive[i])[1]
            fd0, pid0 = tr._fd, tr._pid
            del log[:]
            try:
                tr.ensure_running()
                raised = False
            except OSError:
                raised = True
            had = fd0 is not None
            if had and alive[i]:
                # a live tracker is never replaced
                ok = ok and (not raised) and tr._fd == fd0 and tr._pid == pid0 and \
                    [e[0] for e in log] == ["probe"]
                continue
            if had:
                # a dead one is replaced exactly once: old fd closed, reaped, warned
                ok = ok and log.count("close", fd0) == 1 and log.count("waitpid", pid0) == 1 and \
                    log.count("warn") == 1
            else:
                ok = ok and log.count("warn") == 0 and log.count("waitpid") == 0
            pipes = [e for e in log if e[0] == "pipe"]
            spawns = [e for e in log if e[0] == "spawn"]
            ok = ok and len(pipes) == 1 and len(spawns) == 1
            if not ok:
                break
            r, w = pipes[0][1], pipes[0][2]
            # signals blocked across the spawn and always unblocked afterwards
            masks = [e[1] for e in log if e[0] == "mask"]
            ok = ok and masks == ["block", "unblock"] and spawns[0][2] is True and not blocked[0]
            ok = ok and r in spawns[0][1] and log.count("close", r) == 1  # read end closed in the parent
            if spawn_ok[i]:
                ok = ok and (not raised) and tr._fd == w and tr._pid == pids[0] and log.count("close", w) == 0
            else:
                ok = ok and raised and tr._fd is None and tr._pid is None and log.count("close", w) == 1
            # no descriptor leak: only the current write end stays open
            ok = ok and k.open == ({tr._fd} if tr._fd is not None else set()) and not k.bad
    finally:
        rt.os, rt.spawnv_passfds, rt.signal, rt.sys, rt.warnings = saved
    return ok


def check_identity_inherited(fd: int, pid: int, mpfd: int, mppid: int, init_main: bool, main_kind: int) -> bool:
    """
    pre: fd >= 3 and pid >= 2 and mpfd >= 3 and mppid >= 2
    pre: 0 <= main_kind <= 2
    post: _
    """
    import sys
    import types
    # the parent's __main__: started as `python -m pkg.mod` (spec name), as a script (__file__), or neither
    fake_main = types.ModuleType("__main__")
    if main_kind == 0:
        fake_main.__spec__ = NS(name="pkg.mod")
    elif main_kind == 1:
        fake_main.__spec__ = None
        fake_main.__file__ = "/some/script.py"
    else:
        fake_main.__spec__ = None
    real_main = sys.modules["__main__"]
    sys.modules["__main__"] = fake_main
    try:
        return _identity_inherited(fd, pid, mpfd, mppid, init_main, main_kind)
    finally:
        sys.modules["__main__"] = real_main


def _identity_inherited(fd, pid, mpfd, mppid, init_main, main_kind):
    log = Log()
    parent = NS(ensure_running=lambda: log.add("ensure"), _fd=fd, _pid=pid)
    mpparent = NS(ensure_running=lambda: log.add("mp-ensure"), _fd=mpfd, _pid=mppid)
    saved = (rt._resource_tracker, mprt._resource_tracker, sp._fixup_main_from_name,
             sp._fixup_main_from_path)
    rt._resource_tracker, mprt._resource_tracker = parent, mpparent
    try:
        data = sp.get_preparation_data("W", init_main)
    finally:
        rt._resource_tracker, mprt._resource_tracker = saved[:2]
    has_main = ("init_main_from_name" in data) or ("init_main_from_path" in data)
    # under the default start method (init_main_module=False) the child is never told to re-run __main__
    if has_main != (init_main and main_kind != 2):
        return False
    if log.count("ensure") != 1 or log.count("mp-ensure") != 1:
        return False
    # child side
    child, mpchild = NS(_fd=None, _pid=None), NS(_fd=None, _pid=None)
    rt._resource_tracker, mprt._resource_tracker = child, mpchild
    # the parent's __main__ may be re-executed here: the inherited tracker must already be installed,
    # otherwise a tracked operation at module level would start a second, private tracker
    wired = lambda: child._fd == fd and child._pid == pid and mpchild._fd == mpfd and mpchild._pid == mppid
    sp._fixup_main_from_name = lambda n: log.add("fixup", wired())
    sp._fixup_main_from_path = lambda n: log.add("fixup", wired())
    small = {k: v for k, v in data.items() if k in ("tracker_args", "mp_tracker_args",
                                                    "init_main_from_name", "init_main_from_path")}
    try:
        sp.prepare(small)
    finally:
        (rt._resource_tracker, mprt._resource_tracker, sp._fixup_main_from_name,
         sp._fixup_main_from_path) = saved
    return (child._fd == fd and child._pid == pid and mpchild._fd == mpfd and mpchild._pid == mppid
            and log.count("fixup", True) == (1 if has_main else 0) and log.count("fixup", False) == 0)
