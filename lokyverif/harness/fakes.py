"""Recording fakes used as `self` / collaborators of real loky methods.

Only plain Python here: CrossHair executes the real loky byte-code against these
objects; every visible operation is appended to a shared `log`.
"""
import queue as _queue
import threading


class Log(list):
    def add(self, *ev):
        self.append(tuple(ev))

    def count(self, *prefix):  # type: ignore[override]
        n = len(prefix)
        return sum(1 for e in self if e[:n] == prefix)


class FakeLock:
    """Non-blocking recording lock: acquiring a held lock is a harness error."""

    def __init__(self, log, name, held=False):
        self.log, self.name, self.held = log, name, held

    def acquire(self, block=True, timeout=None):
        if self.held:
            if not block or timeout is not None:
                self.log.add("acquire-fail", self.name)
                return False
            raise RuntimeError(f"deadlock: {self.name} re-acquired")
        self.held = True
        self.log.add("acquire", self.name)
        return True

    def release(self):
        if not self.held:
            raise ValueError(f"{self.name} released too many times")
        self.held = False
        self.log.add("release", self.name)

    def __enter__(self):
        self.acquire()
        return self

    def __exit__(self, *a):
        self.release()


class FakeWakeup:
    def __init__(self, log, shutdown_lock=None):
        self.log = log
        self.shutdown_lock = shutdown_lock
        self._closed = False
        self._reader = "wakeup_reader"

    def wakeup(self):
        held = self.shutdown_lock.held if self.shutdown_lock is not None else None
        self.log.add("wakeup", held)

    def clear(self):
        self.log.add("wakeup-clear")

    def close(self):
        self.log.add("wakeup-close")
        self._closed = True


class FakeFlags:
    def __init__(self, shutdown_lock, shutdown=False, broken=None, kill_workers=False):
        self.shutdown_lock = shutdown_lock
        self.shutdown = shutdown
        self.broken = broken
        self.kill_workers = kill_workers

    def flag_as_shutting_down(self, kill_workers=None):
        with self.shutdown_lock:
            self.shutdown = True
            if kill_workers is not None:
                self.kill_workers = kill_workers

    def flag_as_broken(self, broken):
        with self.shutdown_lock:
            self.shutdown = True
            self.broken = broken


class _FakeEnd:
    def __init__(self, log, ev):
        self.log, self.ev = log, ev

    def close(self):
        self.log.add(self.ev)


class FakeCallQueue:
    """Bounded queue that never blocks: `full()` from a free-slot counter."""

    def __init__(self, log, free_slots, full_times=0):
        self.log = log
        self.free = free_slots
        self.items = []
        self.full_times = full_times  # put_nowait raises Full this many times first
        self._maxsize = free_slots
        self.closed = False
        self._reader = _FakeEnd(log, "cq-reader-close")

    def full(self):
        return self.free <= 0

    def put(self, obj, block=True, timeout=None):
        if self.free <= 0:
            raise RuntimeError("harness: blocking put on a full call queue")
        self.free -= 1
        self.items.append(obj)
        self.log.add("cq-put", getattr(obj, "work_id", obj))

    def put_nowait(self, obj):
        if self.full_times > 0:
            self.full_times -= 1
            self.log.add("cq-full")
            raise _queue.Full()
        self.items.append(obj)
        self.log.add("cq-put", getattr(obj, "work_id", obj))

    def close(self):
        self.closed = True
        self.log.add("cq-close")

    def join_thread(self):
        self.log.add("cq-join-thread")


class FakeProcess:
    def __init__(self, log, pid, alive=True, exitcode=None):
        self.log, self.pid, self.alive = log, pid, alive
        self.exitcode = exitcode
        self.name = f"W{pid}"
        self.sentinel = 1000 + pid
        self._worker_exit_lock = FakeLock(log, f"exit{pid}", held=True)
        self.joined = 0
        self.killed = 0
        self.started = False

    def is_alive(self):
        return self.alive

    def join(self, timeout=None):
        self.joined += 1
        self.log.add("join", self.pid)
        if timeout is not None and getattr(self, "slow", False):
            return  # a bounded join on a process that takes long to go: still alive, exitcode still None
        self.alive = False
        if self.exitcode is None:
            self.exitcode = 0

    def kill(self):
        self.killed += 1
        self.alive = False
        self.log.add("kill", self.pid)

    def start(self):
        if getattr(self, "start_fails", False):
            self.log.add("start-failed", self.pid)
            raise OSError(11, "Resource temporarily unavailable")  # fork: EAGAIN
        self.started = True
        self.alive = True
        self.log.add("start", self.pid)


class NS:
    """Attribute bag used as fake `self`."""

    def __init__(self, **kw):
        self.__dict__.update(kw)


def kwfn(*a, **k):
    return (a, tuple(sorted(k.items())))


import functools as _functools  # noqa: E402

# built at import time, outside CrossHair's tracing (which proxies callables handed to partial)
PARTIAL_EXEMPLAR = _functools.partial(kwfn, 1, 2, a=3)


class FakeCtx:
    """Recording multiprocessing context: Process() hands out FakeProcess objects with
    fresh pids; the management lock must be held while a process is created."""

    def __init__(self, log, first_pid=50, accepts_env=True, mgmt_lock=None, method="loky"):
        self.log, self.next_pid, self.accepts_env = log, first_pid, accepts_env
        self.mgmt_lock = mgmt_lock
        self.method = method
        self.created = []

    def get_start_method(self):
        return self.method

    def Lock(self):
        self.log.add("ctx-lock")
        return FakeLock(self.log, "mgmt")

    def BoundedSemaphore(self, n):
        return FakeLock(self.log, f"exit-sem{len(self.created)}")

    def Process(self, target=None, args=(), **kw):
        if "env" in kw and not self.accepts_env:
            raise TypeError("unexpected keyword env")
        p = FakeProcess(self.log, self.next_pid)
        self.next_pid += 1
        p.start_fails = (len(self.created) == getattr(self, "fail_start_at", -1))
        p.target, p.args, p.kw = target, args, kw
        p.lock_held_at_creation = None if self.mgmt_lock is None else self.mgmt_lock.held
        self.created.append(p)
        self.log.add("process", p.pid)
        return p


def _mk_partial(has_kw, has_attr):
    p = _functools.partial(kwfn, 1, 2, **({"a": 3, "b": 4} if has_kw else {}))
    if has_attr:
        p.label = "tagged"          # partial objects accept instance attributes (functools.update_wrapper sets some)
        p.__doc__ = "documented"
    return p


PARTIALS = {(k, a): _mk_partial(k, a) for k in (False, True) for a in (False, True)}
