"""C13: named semaphores are registered at creation, unlinked + unregistered by the
finalizer, swept by the tracker otherwise; unpickled copies do neither.

Composition of the real `SemLock.__init__/_cleanup/__setstate__` (with the C
`_SemLock`, `sem_unlink`, `util.Finalize` replaced by recorders over a fake
kernel namespace) with the real tracker `main()` fed with the messages the client
side produced, followed by EOF (= the process tree ended)."""
import os
import re
from typing import List

import loky.backend.synchronize as sy

from .c04_contain import _conc
from .c11_tracker import _line, run_main
from .fakes import NS, Log


class _CSem:
    def __init__(self, kernel, collide, log, kind, value, maxvalue, name, unlink_now):
        if collide[0] > 0:
            collide[0] -= 1
            log.add("collision", name)
            raise FileExistsError(name)
        kernel.add(name)
        self.name, self.kind, self.maxvalue, self.handle = name, kind, maxvalue, 7
        log.add("created", name, kind, value, maxvalue, unlink_now)

    def acquire(self, *a):
        return True

    def release(self):
        pass


def check_lifecycle_q(collisions: List[int], finalized: List[bool], early_unlink: List[bool],
                      copy_made: List[bool]) -> bool:
    """
    pre: 1 <= len(collisions) <= 2
    pre: len(finalized) == len(collisions) and len(early_unlink) == len(collisions) and len(copy_made) == len(collisions)
    pre: all(0 <= c <= 1 for c in collisions)
    post: _
    """
    return _lifecycle(collisions, finalized, early_unlink, copy_made)


def check_lifecycle_t(collisions: List[int], finalized: List[bool], early_unlink: List[bool],
                      copy_made: List[bool]) -> bool:
    """
    pre: 1 <= len(collisions) <= 2
    pre: len(finalized) == len(collisions) and len(early_unlink) == len(collisions) and len(copy_made) == len(collisions)
    pre: all(0 <= c <= 2 for c in collisions)
    post: _
    """
    return _lifecycle(collisions, finalized, early_unlink, copy_made)


def _lifecycle(collisions, finalized, early_unlink, copy_made):
    n = len(collisions)
    collisions = [_conc(c, 2) for c in collisions]
    log = Log()
    kernel = set()
    msgs = []
    finalizers = []
    collide = [0]

    def unlink(name):
        if name not in kernel:
            raise FileNotFoundError(name)
        kernel.discard(name)
        log.add("unlinked", name)

    class CS(_CSem):
        def __init__(self, *a):
            _CSem.__init__(self, kernel, collide, log, *a)

        @staticmethod
        def _rebuild(handle, kind, maxvalue, name):
            log.add("rebuilt", name)
            return NS(name=name, kind=kind, maxvalue=maxvalue, handle=handle,
                      acquire=lambda *a: True, release=lambda: None)

    saved = (sy._SemLock, sy.sem_unlink, sy.resource_tracker, sy.util, sy.assert_spawning)
    saved_rand = sy.SemLock._rand
    sy.SemLock._rand = iter("name%d" % j for j in range(100))  # deterministic stand-in for the random names
    sy._SemLock = CS
    sy.sem_unlink = unlink
    sy.resource_tracker = NS(register=lambda nm, t: msgs.append(("REGISTER", nm, t)),
                             unregister=lambda nm, t: msgs.append(("UNREGISTER", nm, t)))
    sy.util = NS(debug=lambda *a: None, register_after_fork=lambda o, f: None,
                 Finalize=lambda obj, cb, args=(), exitpriority=None: finalizers.append((obj, cb, args)))
    sy.assert_spawning = lambda o: None
    sems = []
    try:
        for i in range(n):
            collide[0] = collisions[i]
            kinds = (sy.Lock, sy.RLock)
            s = kinds[i % 2]()
            sems.append(s)
            if copy_made[i]:
                nfin, nmsg = len(finalizers), len(msgs)
                c = sy.Lock.__new__(sy.Lock)
                c.__setstate__(s.__getstate__())
                # unpickled copies in children never register nor install a finalizer
                if len(finalizers) != nfin or len(msgs) != nmsg or c._semlock.name != s._semlock.name:
                    return False
        names = [s._semlock.name for s in sems]
        if len(set(names)) != n or any(not re.fullmatch(r"/loky-%d-\w+" % os.getpid(), x) for x in names):
            return False
        created = [e[1] for e in log if e[0] == "created"]
        if created != names or len(finalizers) != n:
            return False
        # exactly one REGISTER per created semaphore, with the very name given to the kernel
        if msgs != [("REGISTER", x, "semlock") for x in names]:
            return False
        for i in range(n):
            if early_unlink[i]:
                unlink(names[i])  # user code removed it behind loky's back
        for i in range(n):
            obj, cb, args = finalizers[i]
            if obj is not sems[i] or args != (names[i],):
                return False
            if finalized[i]:
                cb(*args)  # real SemLock._cleanup
    finally:
        sy._SemLock, sy.sem_unlink, sy.resource_tracker, sy.util, sy.assert_spawning = saved
        sy.SemLock._rand = saved_rand
    # the tree ends: the tracker reads what the clients wrote, then EOF
    lines = [_line(c, nm, t) for c, nm, t in msgs]

    def sweep_unlink(name):
        try:
            unlink(name)
        except FileNotFoundError:
            log.add("sweep-miss", name)
            raise

    tlog = run_main(lines, cleanup={"semlock": sweep_unlink})
    if kernel:
        return False  # a name outlived the tree
    for i in range(n):
        if finalized[i] and (("UNREGISTER", names[i], "semlock") not in msgs):
            return False  # _cleanup unregisters even when the unlink failed
    leaked = [e for e in tlog if e[0] == "warn" and "leaked" in e[1]]
    if all(finalized) and leaked:
        return False  # properly released objects are never reported as leaked
    # each name unlinked exactly once overall
    return all(log.count("unlinked", x) == 1 for x in names)


def check_kill_points(kill_after: int, early_unlink: bool) -> bool:
    """
    pre: 2 <= kill_after <= 5
    post: _
    """
    # One Lock is created, then collected; the owning process is SIGKILLed after `kill_after`
    # externally visible effects (1 = semaphore created in the kernel, 2 = REGISTER sent,
    # 3/4 = the two steps of the finalizer; 5 = never). Effects after the kill do not happen.
    # (kill_after == 1, death between sem_open and the REGISTER message, is finding F7.)
    return _kill_points(_conc(kill_after - 2, 3) + 2, early_unlink)


def check_kill_window_f7(early_unlink: bool) -> bool:
    """
    post: _
    """
    # kill_after == 1: the owner dies between sem_open and the REGISTER message.  Known finding F7 (inherent
    # two-step window): this unit is expected to report it - as KNOWN-FINDING - for as long as it exists.
    return _kill_points(1, early_unlink)


def _kill_points(kill_after, early_unlink):
    log = Log()
    kernel = set()
    msgs = []
    finalizers = []
    effects = [0]

    def alive():
        return effects[0] < kill_after

    def effect():
        effects[0] += 1

    def unlink(name):
        if not alive():
            return
        if name not in kernel:
            raise FileNotFoundError(name)
        kernel.discard(name)
        effect()

    def send(cmd, nm, t):
        if alive():
            msgs.append((cmd, nm, t))
            effect()

    class CS(_CSem):
        def __init__(self, *a):
            _CSem.__init__(self, kernel, [0], log, *a)
            effect()

    saved = (sy._SemLock, sy.sem_unlink, sy.resource_tracker, sy.util, sy.SemLock._rand)
    sy.SemLock._rand = iter("name%d" % j for j in range(100))
    sy._SemLock = CS
    sy.sem_unlink = unlink
    sy.resource_tracker = NS(register=lambda nm, t: send("REGISTER", nm, t),
                             unregister=lambda nm, t: send("UNREGISTER", nm, t))
    sy.util = NS(debug=lambda *a: None, register_after_fork=lambda o, f: None,
                 Finalize=lambda obj, cb, args=(), exitpriority=None: finalizers.append((cb, args)))
    try:
        lk = sy.Lock()
        name = lk._semlock.name
        if early_unlink and alive():
            kernel.discard(name)
        cb, args = finalizers[0]
        try:
            cb(*args)  # the object is collected: real SemLock._cleanup
        except FileNotFoundError:
            return False
    finally:
        sy._SemLock, sy.sem_unlink, sy.resource_tracker, sy.util, sy.SemLock._rand = saved
    # the process tree is gone: the tracker reads what was sent, then EOF

    def sweep_unlink(nm):
        if nm not in kernel:
            raise FileNotFoundError(nm)
        kernel.discard(nm)
    run_main([_line(c, nm, t) for c, nm, t in msgs], cleanup={"semlock": sweep_unlink})
    return not kernel  # whatever the kill point, the name does not outlive the tree


def check_copy_after_release(n_copies: int, released_first: bool, kind: int) -> bool:
    """
    pre: 1 <= n_copies <= 2 and 0 <= kind <= 1
    post: _
    """
    # an unpickled copy (what a child process builds from the pickled lock of its parent) never creates, owns,
    # registers or unlinks a named semaphore - also when it is rebuilt after the creator already released the
    # object (parent dropped the lock right after starting the child): the copy may fail, it must not re-create
    n_copies, kind = _conc(n_copies, 2), _conc(kind, 1)
    log = Log()
    kernel = set()
    msgs = []
    finalizers = []
    collide = [0]

    def unlink(name):
        if name not in kernel:
            raise FileNotFoundError(name)
        kernel.discard(name)
        log.add("unlinked", name)

    class CS(_CSem):
        def __init__(self, *a):
            _CSem.__init__(self, kernel, collide, log, *a)

        @staticmethod
        def _rebuild(handle, kind, maxvalue, name):
            if name not in kernel:
                raise FileNotFoundError(name)  # sem_open without O_CREAT on a name that was unlinked
            log.add("rebuilt", name)
            return NS(name=name, kind=kind, maxvalue=maxvalue, handle=handle,
                      acquire=lambda *a: True, release=lambda: None)

    saved = (sy._SemLock, sy.sem_unlink, sy.resource_tracker, sy.util, sy.assert_spawning)
    saved_rand = sy.SemLock._rand
    sy.SemLock._rand = iter("name%d" % j for j in range(100))
    sy._SemLock = CS
    sy.sem_unlink = unlink
    sy.resource_tracker = NS(register=lambda nm, t: msgs.append(("REGISTER", nm, t)),
                             unregister=lambda nm, t: msgs.append(("UNREGISTER", nm, t)))
    sy.util = NS(debug=lambda *a: None, register_after_fork=lambda o, f: None,
                 Finalize=lambda obj, cb, args=(), exitpriority=None: finalizers.append((obj, cb, args)))
    sy.assert_spawning = lambda o: None
    try:
        cls = (sy.Lock, sy.RLock)[kind]
        s = cls()
        name = s._semlock.name
        state = s.__getstate__()
        if released_first:
            obj, cb, args = finalizers[0]
            cb(*args)  # real SemLock._cleanup: unlink + UNREGISTER
        base = (len(finalizers), list(msgs), set(kernel), log.count("created"))
        for _ in range(n_copies):
            c = cls.__new__(cls)
            try:
                c.__setstate__(state)
                failed = False
            except FileNotFoundError:
                failed = True
            if failed and not released_first:
                return False  # a copy of a live semaphore always rebuilds
            if not failed and c._semlock.name != name:
                return False
            if (len(finalizers), list(msgs), set(kernel), log.count("created")) != base:
                return False  # the copy created / registered / removed something
    finally:
        sy._SemLock, sy.sem_unlink, sy.resource_tracker, sy.util, sy.assert_spawning = saved
        sy.SemLock._rand = saved_rand
    if not released_first:
        obj, cb, args = finalizers[0]
        saved2 = (sy.sem_unlink, sy.resource_tracker)
        sy.sem_unlink = unlink
        sy.resource_tracker = NS(register=lambda nm, t: msgs.append(("REGISTER", nm, t)),
                                 unregister=lambda nm, t: msgs.append(("UNREGISTER", nm, t)))
        try:
            cb(*args)
        finally:
            sy.sem_unlink, sy.resource_tracker = saved2
    lines = [_line(c_, nm, t) for c_, nm, t in msgs]
    tlog = run_main(lines, cleanup={"semlock": unlink})
    leaked = [e for e in tlog if e[0] == "warn" and "leaked" in e[1]]
    return not kernel and not leaked and log.count("unlinked", name) == 1
