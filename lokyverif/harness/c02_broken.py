"""C02/C05/C06/C20 step contracts on the real manager-thread methods."""
import signal
from concurrent.futures.process import BrokenProcessPool as StdBroken
from typing import List

import loky.backend.utils as lu
import loky.process_executor as pe
from loky._base import Future
from loky.process_executor import (BrokenProcessPool, ShutdownExecutorError, TerminatedWorkerError,
                                   _ExecutorManagerThread, _RemoteTraceback, _ResultItem, _WorkItem)

from .c04_contain import _TB, _conc
from .fakes import NS, FakeCallQueue, FakeFlags, FakeLock, FakeProcess, FakeWakeup, Log

MT = _ExecutorManagerThread


def check_wait_table(result_ready: bool, wakeup_ready: bool, sent: List[bool], kind: int, code: int) -> bool:
    """
    pre: 1 <= len(sent) <= 2 and 0 <= kind <= 3 and -15 <= code <= 3
    pre: result_ready or wakeup_ready or any(sent)
    post: _
    """
    kind, code = _conc(kind, 3), _conc(code + 15, 18) - 15
    log = Log()
    procs = {10 + i: FakeProcess(log, 10 + i, alive=not s, exitcode=(code if s else None))
             for i, s in enumerate(sent)}
    item = [_ResultItem(3, result=1), 11, _RemoteTraceback("tb"), None][kind]

    def recv():
        log.add("recv")
        if kind == 3:
            raise EOFError("garbled")
        return item

    reader = NS(recv=recv)
    wake = FakeWakeup(log)
    fake = NS(result_queue=NS(_reader=reader), thread_wakeup=wake, processes=procs,
              shutdown_lock=FakeLock(log, "shutdown_lock"))

    def wait(objs):
        if objs[:2] != [reader, wake._reader] or sorted(objs[2:]) != sorted(p.sentinel for p in procs.values()):
            raise RuntimeError("harness: manager does not watch result pipe, wakeup pipe and every sentinel")
        out = [reader] if result_ready else []
        out += [wake._reader] if wakeup_ready else []
        return out + [p.sentinel for i, p in enumerate(procs.values()) if sent[i]]

    saved = (pe.wait, pe.traceback, lu.time)
    pe.wait, pe.traceback, lu.time = wait, _TB, NS(sleep=lambda s: log.add("sleep"))
    try:
        got, broken, bpe = MT.wait_result_broken_or_wakeup(fake)
    finally:
        pe.wait, pe.traceback, lu.time = saved
    if log.count("wakeup-clear") != 1:
        return False
    if result_ready:  # a result wins over a wakeup and over a sentinel
        if log.count("recv") != 1:
            return False
        if kind in (0, 1):
            return got is item and broken is False and bpe is None
        if not (broken and type(bpe) is BrokenProcessPool and isinstance(bpe, StdBroken)):
            return False
        if kind == 2:
            return bpe.__cause__ is item
        return isinstance(bpe.__cause__, _RemoteTraceback) and "EOFError" in str(bpe.__cause__) and got is None
    if log.count("recv") != 0 or got is not None:
        return False
    if wakeup_ready:
        return broken is False and bpe is None
    # only a sentinel: unannounced death -> TerminatedWorkerError naming the exit codes
    if not (broken and type(bpe) is TerminatedWorkerError and isinstance(bpe, StdBroken)):
        return False
    if code < 0:
        try:
            name = signal.Signals(-code).name
        except ValueError:
            name = "UNKNOWN"
    else:
        name = "EXIT"
    return f"{name}({code})" in str(bpe)


def check_exitcode_names(code: int, n: int) -> bool:
    """
    pre: -64 <= code <= 255 and 0 <= n <= 2
    post: _
    """
    codes = ([_conc(code + 64, 319) - 64] + [-9])[: _conc(n, 2)]
    s = lu._format_exitcodes(codes)
    parts = []
    for c in codes:
        if c < 0:
            try:
                n = signal.Signals(-c).name
            except ValueError:
                n = "UNKNOWN"
        elif c == 255:
            n = "UNKNOWN"
        else:
            n = "EXIT"
        parts.append(f"{n}({c})")
    return s == "{" + ", ".join(parts) + "}"


def _mk_manager(log, n_pending, n_procs, kill_flag=False, alive=None):
    sl = FakeLock(log, "shutdown_lock")
    mgmt = FakeLock(log, "mgmt")
    flags = FakeFlags(sl, kill_workers=kill_flag)
    futs = []
    pending = {}
    for i in range(n_pending):
        f = Future()
        f.add_done_callback(lambda fut, i=i: log.add("failed", i, flags.broken is not None or flags.shutdown))
        f.add_done_callback(lambda fut: log.add("cb-locks", sl.held or mgmt.held))
        futs.append(f)
        pending[i] = _WorkItem(f, len, (), {})
    procs = {10 + i: FakeProcess(log, 10 + i, alive=(alive[i] if alive else True)) for i in range(n_procs)}
    cq = FakeCallQueue(log, 5)
    fake = NS(executor_flags=flags, pending_work_items=pending, processes=procs, shutdown_lock=sl,
              processes_management_lock=mgmt, call_queue=cq, thread_wakeup=FakeWakeup(log, sl),
              result_queue=NS(close=lambda: log.add("rq-close")))
    for name in ("kill_workers", "join_executor_internals", "shutdown_workers", "get_n_children_alive"):
        setattr(fake, name, (lambda nm: lambda *a, **k: getattr(MT, nm)(fake, *a, **k))(name))
    return fake, futs, procs, flags, cq, mgmt


def _kill_tree(log):
    def k(p):
        log.add("kill-tree", p.pid)
        p.kill()
        p.join()
    return k


def _reader_released(log):
    """C20 (finding F8): once every worker has been killed nobody reads the call queue any more; unless the
    parent closes its own copy of the reading end, a feeder thread blocked in send_bytes (task larger than the
    pipe buffer) never ends and keeps the thread and both pipe ends for ever.  The close must come after the
    pending futures were failed (the feeder's error callback must not resolve them with a made-up error)."""
    idx = [i for i, e in enumerate(log) if e[:1] == ("cq-reader-close",)]
    last_fail = max([i for i, e in enumerate(log) if e[:1] == ("failed",)], default=-1)
    return bool(idx) and idx[0] > last_fail


def check_terminate_broken(n_pending: int, n_procs: int, lookup_fails: bool, cancel_siblings: bool = False) -> bool:
    """
    pre: 0 <= n_pending <= 3 and 0 <= n_procs <= 3
    post: _
    """
    n_pending, n_procs = _conc(n_pending, 3), _conc(n_procs, 3)
    log = Log()
    fake, futs, procs, flags, cq, mgmt = _mk_manager(log, n_pending, n_procs)
    if cancel_siblings and futs:
        # "cancel the others on first failure": a done-callback of the first future cancels its still-pending
        # siblings while the manager is half-way through failing them
        futs[0].add_done_callback(lambda fut: [g.cancel() for g in futs[1:]])
    plist = list(procs.values())
    bpe = TerminatedWorkerError("x")
    kt = _kill_tree(log)

    def kill_tree(p):
        kt(p)
        if lookup_fails:
            raise ProcessLookupError()

    saved = (pe.kill_process_tree, pe.sleep)
    pe.kill_process_tree, pe.sleep = kill_tree, lambda s: log.add("sleep")
    try:
        MT.terminate_broken(fake, bpe)
    finally:
        pe.kill_process_tree, pe.sleep = saved
    if flags.broken is not bpe or not flags.shutdown:
        return False
    for i, f in enumerate(futs):
        if cancel_siblings and i > 0:
            if not f.cancelled():
                return False  # cancelled by the user callback before the manager got to it: stays cancelled
            continue
        # every unresolved future fails with that same error; the flag was set before the first one failed
        if f.exception(timeout=0) is not bpe or log.count("failed", i, True) != 1:
            return False
    if fake.pending_work_items or procs:
        return False
    for p in plist:  # every remaining worker killed exactly once and reaped
        if log.count("kill-tree", p.pid) != 1 or p.alive:
            return False
    if not _reader_released(log) or log.count("cb-locks", True):
        return False  # (user done-callbacks never run while an internal lock is held)
    # internals joined: queues and wakeup closed (wakeup under the shutdown lock), no lock left held
    return (log.count("cq-close") == 1 and log.count("cq-join-thread") == 1 and log.count("rq-close") == 1
            and log.count("wakeup-close") == 1 and not mgmt.held and not fake.shutdown_lock.held
            and log.count("cq-put") == 0)


def check_flag_shutting_down(n_pending: int, n_procs: int, kill: bool, done_before: int) -> bool:
    """
    pre: 0 <= n_pending <= 3 and 0 <= n_procs <= 3 and 0 <= done_before <= 1
    post: _
    """
    n_pending, n_procs = _conc(n_pending, 3), _conc(n_procs, 3)
    log = Log()
    fake, futs, procs, flags, cq, mgmt = _mk_manager(log, n_pending, n_procs, kill_flag=kill)
    plist = list(procs.values())
    resolved = Future()
    if done_before:
        resolved.set_result("kept")
    saved = pe.kill_process_tree
    pe.kill_process_tree = _kill_tree(log)
    try:
        MT.flag_executor_shutting_down(fake)
    finally:
        pe.kill_process_tree = saved
    if not flags.shutdown or flags.broken is not None or flags.kill_workers != kill:
        return False
    if done_before and resolved.result(timeout=0) != "kept":
        return False
    if not kill:  # graceful: nothing is failed, nobody is killed
        return all(not f.done() for f in futs) and len(fake.pending_work_items) == n_pending and \
            len(procs) == n_procs and log.count("kill-tree") == 0
    if log.count("cb-locks", True):
        return False
    for f in futs:
        if type(f.exception(timeout=0)) is not ShutdownExecutorError:
            return False
    return (not fake.pending_work_items) and (not procs) and _reader_released(log) and \
        all(log.count("kill-tree", p.pid) == 1 for p in plist)


def check_shutdown_workers(alive: List[bool], full_times: int) -> bool:
    """
    pre: len(alive) <= 3 and 0 <= full_times <= 3
    post: _
    """
    full_times = _conc(full_times, 3)
    n = len(alive)
    log = Log()
    fake, futs, procs, flags, cq, mgmt = _mk_manager(log, 0, n, alive=list(alive))
    cq.full_times = full_times
    plist = list(procs.values())
    saved = pe.sleep
    pe.sleep = lambda s: log.add("sleep")
    try:
        MT.shutdown_workers(fake)
    finally:
        pe.sleep = saved
    for p in plist:  # every exit lock released exactly once
        if p._worker_exit_lock.held or log.count("release", f"exit{p.pid}") != 1:
            return False
    sent = [e for e in log if e == ("cq-put", None)]
    want = n if any(alive) else 0  # exactly one sentinel per worker, none when nobody is left
    return len(sent) == want and not mgmt.held and log.count("cq-full") == (full_times if want else 0)


def check_join_internals(alive: List[bool]) -> bool:
    """
    pre: len(alive) <= 3
    post: _
    """
    n = len(alive)
    log = Log()
    fake, futs, procs, flags, cq, mgmt = _mk_manager(log, 0, n, alive=list(alive))
    plist = list(procs.values())
    saved = pe.sleep
    pe.sleep = lambda s: log.add("sleep")
    try:
        MT.join_executor_internals(fake)
    finally:
        pe.sleep = saved
    names = [e[0] for e in log if e[0] in ("cq-close", "cq-join-thread", "rq-close", "wakeup-close", "join")]
    # queues and wakeup closed once, then every worker joined; nothing stays registered
    if names[:4] != ["cq-close", "cq-join-thread", "rq-close", "wakeup-close"] or names[4:] != ["join"] * n:
        return False
    wc = [e for e in log if e[0] == "wakeup-close"]
    return (not procs) and all(p.joined == 1 for p in plist) and not mgmt.held and not fake.shutdown_lock.held


def check_wakeup_close_idempotent(times: int) -> bool:
    """
    pre: 1 <= times <= 3
    post: _
    """
    times = _conc(times, 3)
    log = Log()

    def pipe(duplex=False):
        return (NS(close=lambda: log.add("r-close"), poll=lambda: False),
                NS(close=lambda: log.add("w-close"), send_bytes=lambda b: log.add("send")))

    import multiprocessing as _mp
    saved = pe.mp
    pe.mp = NS(Pipe=pipe, util=_mp.util)  # only the pipe is faked; the rest of multiprocessing is the real module
    try:
        w = pe._ThreadWakeup()
    finally:
        pe.mp = saved
    w.wakeup()
    for _ in range(times):
        w.close()
    w.wakeup()  # after close: silently ignored
    w.clear()
    return log.count("r-close") == 1 and log.count("w-close") == 1 and log.count("send") == 1


def check_shutdown_call(wait: bool, kill: bool, started: bool, already: bool = False) -> bool:
    """
    post: _
    """
    # `already`: an earlier shutdown(wait=False) flagged the executor; the manager thread is still running its
    # pending work.  A later shutdown(wait=True[, kill_workers=True]) (what get_reusable_executor issues before it
    # replaces the instance) must still record the request, wake the manager up and wait for it.
    # real ProcessPoolExecutor.shutdown on a fake executor: whatever `wait` is, the flag is set first and the
    # manager thread is woken (under the shutdown lock) so that it can notice; join only when waited
    log = Log()
    sl = FakeLock(log, "shutdown_lock")
    flags = FakeFlags(sl)
    flags.shutdown = bool(already)
    joined = []

    class _Mgr:
        def join(self):
            joined.append((flags.shutdown, log.count("wakeup", True)))
    mgr = _Mgr() if started else None
    fake = NS(_flags=flags, _executor_manager_thread=mgr,
              _executor_manager_thread_wakeup=FakeWakeup(log, sl), _shutdown_lock=sl,
              _call_queue="q", _result_queue="r", _processes_management_lock="l")
    saved = pe._threads_wakeups
    pe._threads_wakeups = {mgr: "x"} if started else {}
    try:
        pe.ProcessPoolExecutor.shutdown(fake, wait=wait, kill_workers=kill)
        left = dict(pe._threads_wakeups)
    finally:
        pe._threads_wakeups = saved
    if not flags.shutdown or flags.kill_workers != kill or sl.held:
        return False
    if log.count("wakeup", True) != 1:
        return False  # exactly one wake-up, sent while holding the shutdown lock, also when not waiting
    i_flag = [i for i, e in enumerate(log) if e == ("acquire", "shutdown_lock")][0]
    i_wake = [i for i, e in enumerate(log) if e[0] == "wakeup"][0]
    if i_wake < i_flag:
        return False  # the flag is published before the manager is woken
    if started and wait:
        return joined == [(True, 1)] and left == {}
    return joined == []


class _Livelock(Exception):
    pass


def check_shutdown_workers_small_queue(announced: List[bool], cap: int) -> bool:
    """
    pre: 1 <= len(announced) <= 3 and 1 <= cap <= 2
    post: _
    """
    # More sentinels than free call-queue slots. Workers that already announced their own exit (idle time-out)
    # sit on their exit lock and never read the queue; idle workers take one sentinel each. The environment makes
    # progress inside sleep(); if nothing can change any more and the loop keeps sleeping, that is a livelock
    # (the real code would give up after ~26 s by re-raising queue.Full in the manager thread).
    import queue as _q
    cap = _conc(cap, 2)
    n = len(announced)
    log = Log()
    fake, futs, procs, flags, cq, mgmt = _mk_manager(log, 0, n)
    plist = list(procs.values())
    for p, a in zip(plist, announced):
        p.announced = bool(a)
        p.is_alive = (lambda p=p: (p._worker_exit_lock.held if p.announced else p.alive))
    items = []

    def put_nowait(obj):
        if len(items) >= cap:
            log.add("cq-full")
            raise _q.Full()
        items.append(obj)
        log.add("cq-put", obj)
    cq.put_nowait = put_nowait
    idle = [0]

    def sleep(dt):
        for p in plist:
            if not p.announced and p.alive and items:
                items.pop()
                p.alive = False  # took its sentinel and left
                idle[0] = 0
                return
        idle[0] += 1
        if idle[0] > 4:
            raise _Livelock()
    saved = pe.sleep
    pe.sleep = sleep
    try:
        try:
            MT.shutdown_workers(fake)
        except _Livelock:
            return False  # stuck: queue full, nobody will ever take a sentinel, the loop spins until it gives up
        except _q.Full:
            return False
    finally:
        pe.sleep = saved
    return all(not p._worker_exit_lock.held for p in plist) and not mgmt.held


class _ContendedLock(FakeLock):
    """A lock that another thread may hold when the code under test arrives: a blocking acquire then waits for the
    owner (who releases eventually: logged as 'waited'), a non-blocking / timed one fails."""

    def __init__(self, log, name, held_by_other):
        super().__init__(log, name)
        self.other = held_by_other

    def acquire(self, block=True, timeout=None, blocking=None):
        if blocking is not None:
            block = blocking
        if self.other:
            if not block or timeout is not None:
                self.log.add("acquire-fail", self.name)
                return False
            self.log.add("waited", self.name)
            self.other = False
        return super().acquire(block, timeout)


class _Owner:
    pass


def _manager_for(owner):
    from crosshair.tracers import NoTracing, is_tracing
    if is_tracing():
        with NoTracing():
            return MT(owner)
    return MT(owner)


def check_gc_wakeup(held_by_other: bool, mp_gone: bool) -> bool:
    """
    post: _
    """
    # C05 "shutdown via garbage collection of the executor": the weakref callback installed by the real
    # _ExecutorManagerThread.__init__ is the only signal that tells the manager thread that its executor was
    # collected; it must wake the thread up (under the shutdown lock) even if another thread (submit in a callback,
    # the feeder's error handler, shutdown) holds that lock at the time
    log = Log()
    sl = _ContendedLock(log, "shutdown_lock", bool(held_by_other))
    owner = _Owner()
    owner._executor_manager_thread_wakeup = FakeWakeup(log, sl)
    owner._shutdown_lock = sl
    owner._flags = FakeFlags(sl)
    owner._processes, owner._pending_work_items, owner._running_work_items = {}, {}, []
    owner._call_queue, owner._result_queue, owner._work_ids = FakeCallQueue(log, 3), NS(), NS()
    owner._processes_management_lock = FakeLock(log, "mgmt")
    try:
        mt = _manager_for(owner)
    except ImportError:
        mt = MT(owner)
    cb = mt.executor_reference.__callback__
    if cb is None:
        return False
    saved = pe.mp
    if mp_gone:
        pe.mp = None
    try:
        cb(None)
    finally:
        pe.mp = saved
    return log.count("wakeup", True) == 1 and not sl.held and log.count("acquire-fail") == 0


def check_flags_step(shutdown0: bool, kill0: bool, kw: int, broken0: bool) -> bool:
    """
    pre: 0 <= kw <= 2
    post: _
    """
    # the real _ExecutorFlags: a forced shutdown request is recorded whatever was requested before (C06: a
    # shutdown(kill_workers=True) issued after a shutdown(wait=False) still kills), plain requests leave it alone
    kw = _conc(kw, 2)
    log = Log()
    sl = FakeLock(log, "shutdown_lock")
    fl = pe._ExecutorFlags(sl)
    fl.shutdown, fl.kill_workers = bool(shutdown0), bool(kill0)
    marker = TerminatedWorkerError("b") if broken0 else None
    fl.broken = marker
    arg = {0: None, 1: False, 2: True}[kw]
    fl.flag_as_shutting_down(arg)
    if not fl.shutdown or fl.broken is not marker or sl.held:
        return False
    if arg is None:
        return fl.kill_workers == bool(kill0)
    return fl.kill_workers is arg and log.count("acquire", "shutdown_lock") == 1


def _untraced(fn):
    try:
        from crosshair.tracers import NoTracing, is_tracing
    except ImportError:
        return fn()
    if not is_tracing():
        return fn()
    with NoTracing():
        return fn()


def check_exit_registry(n: int, how: int, at_exit: bool) -> bool:
    """
    pre: 1 <= n <= 3 and 0 <= how <= 2
    post: _
    """
    # C20 / C05: the interpreter-exit registry (_threads_wakeups, filled by the real
    # _start_executor_manager_thread) must not keep finished executors alive: whatever way an executor is
    # released - shutdown(wait=False), plain drop, shutdown(wait=True) - its entry is gone once the manager thread
    # object is unreachable, so that the queues / locks (named semaphores) it references can be collected.
    # With at_exit, the real _python_exit is run while the entries are alive: each manager is woken under its own
    # shutdown lock, then joined.
    n, how = _conc(n, 3), _conc(how, 2)
    at_exit = bool(at_exit)
    return _untraced(lambda: _exit_registry(n, how, at_exit))


def _exit_registry(n, how, at_exit):
    import gc
    import weakref
    from .c08_pool_size import _mk_executor
    log = Log()
    reg = weakref.WeakKeyDictionary()
    saved = (pe._threads_wakeups, pe.process_pool_executor_at_exit, MT.start, MT.join, pe._global_shutdown)
    pe._threads_wakeups = reg
    pe.process_pool_executor_at_exit = "registered"   # do not install a real atexit hook from the harness
    MT.start = lambda self: log.add("start")
    MT.join = lambda self, timeout=None: log.add("join", self.name)
    try:
        keep = []
        for i in range(n):
            ex, ctx, lock = _mk_executor(log, 0, 1)
            sl = ex._shutdown_lock
            ex._executor_manager_thread_wakeup = NS(
                wakeup=(lambda sl=sl, i=i: log.add("wakeup", i, sl.locked())), close=lambda: None, _closed=False)
            ex._call_queue = FakeCallQueue(log, 3)
            pe.ProcessPoolExecutor._start_executor_manager_thread(ex)
            if len(reg) != len(keep) + 1:
                return False
            keep.append(ex)
        if at_exit:
            del log[:]
            pe._python_exit()
            for i in range(n):
                if log.count("wakeup", i, True) != 1:
                    return False  # every live manager is woken, while its shutdown lock is held
            if log.count("join") != n:
                return False
            wake_idx = [j for j, e in enumerate(log) if e[0] == "wakeup"]
            join_idx = [j for j, e in enumerate(log) if e[0] == "join"]
            if max(wake_idx) > min(join_idx):
                return False  # all are woken before the first join (a join before the wake-up may wait for ever)
        while keep:
            ex = keep.pop()
            if how == 0:
                pe.ProcessPoolExecutor.shutdown(ex, wait=False)
            elif how == 2:
                pe.ProcessPoolExecutor.shutdown(ex, wait=True)
            del ex
        gc.collect()
        return len(reg) == 0
    finally:
        pe._threads_wakeups, pe.process_pool_executor_at_exit, MT.start, MT.join, pe._global_shutdown = saved


class _LoopTooLong(Exception):
    pass


def check_run_loop(events: List[int], shut_at: int, pending_left: List[int]) -> bool:
    """
    pre: 1 <= len(events) <= 3 and len(pending_left) == len(events)
    pre: all(0 <= e <= 2 for e in events) and all(0 <= p <= 1 for p in pending_left)
    pre: 0 <= shut_at <= 3
    post: _
    """
    return _run_loop(events, shut_at, pending_left)


def check_run_loop_4(events: List[int], shut_at: int, pending_left: List[int]) -> bool:
    """
    pre: len(events) == 4 and len(pending_left) == 4
    pre: all(0 <= e <= 2 for e in events) and all(0 <= p <= 1 for p in pending_left)
    pre: 0 <= shut_at <= 4
    post: _
    """
    return _run_loop(events, shut_at, pending_left)


def _run_loop(events, shut_at, pending_left):
    # the real _ExecutorManagerThread.run against a scripted environment: turn i of the loop sees event
    # events[i] (0 wake-up only, 1 a result item, 2 broken pool); from turn `shut_at` on is_shutting_down() is true;
    # pending_left[i] says whether work items remain after turn i.  Protocol of one turn (what C01/C02/C05 rest on):
    # dispatch first, then wait; broken -> terminate_broken(bpe) with the very error and stop; a result is processed
    # before the shutdown test; shutting down -> flag every turn, and leave through join_executor_internals exactly
    # when nothing is pending - never before, never later.
    events = [_conc(e, 2) for e in events]
    pending_left = [_conc(p, 1) for p in pending_left]
    shut_at = _conc(shut_at, 4)
    n = len(events)
    log = Log()
    turn = [0]
    bpe = TerminatedWorkerError("x")

    class Pending:
        def __bool__(self):
            return bool(pending_left[turn[0] - 1])

        def __len__(self):
            return pending_left[turn[0] - 1]

    def wait():
        i = turn[0]
        if i >= n:
            raise _LoopTooLong()
        turn[0] += 1
        log.add("wait", i)
        e = events[i]
        if e == 2:
            return None, True, bpe
        if e == 1:
            return ("item", i), False, None
        return None, False, None

    fake = NS(pending_work_items=Pending(),
              add_call_item_to_queue=lambda: log.add("dispatch", turn[0]),
              wait_result_broken_or_wakeup=wait,
              terminate_broken=lambda b: log.add("terminate", b is bpe),
              process_result_item=lambda it: log.add("process", it[1]),
              is_shutting_down=lambda: (log.add("shutq", turn[0] - 1), turn[0] - 1 >= shut_at)[1],
              flag_executor_shutting_down=lambda: log.add("flag", turn[0] - 1),
              join_executor_internals=lambda: log.add("join-internals", turn[0] - 1))
    try:
        MT.run(fake)
        ended = True
    except _LoopTooLong:
        ended = False
    # reference behaviour
    want = []
    stop = None
    for i in range(n):
        want.append(("dispatch", i))
        want.append(("wait", i))
        if events[i] == 2:
            want.append(("terminate", True))
            stop = i
            break
        if events[i] == 1:
            want.append(("process", i))
        want.append(("shutq", i))
        if i >= shut_at:
            want.append(("flag", i))
            if not pending_left[i]:
                want.append(("join-internals", i))
                stop = i
                break
    if stop is None:
        want.append(("dispatch", n))  # the loop goes on: one more dispatch, then the script ends
    return list(log) == want and ended == (stop is not None)


def check_unused_executor_released(n: int, how: int) -> bool:
    """
    pre: 1 <= n <= 3 and 0 <= how <= 2
    post: _
    """
    # C20: an executor that is created and released without ever running a task (shutdown(), context manager, plain
    # drop) has no manager thread to close its wake-up pipe: the pipe goes away only if nothing else keeps the
    # _ThreadWakeup object alive.  Real constructor, real _ThreadWakeup (real pipe), real shutdown; afterwards the
    # object must be unreachable and both descriptors closed, for every one of n such lifecycles.
    n, how = _conc(n, 3), _conc(how, 2)
    return _untraced(lambda: _unused_released(n, how))


def _unused_released(n, how):
    import gc
    import os
    import weakref
    from .fakes import FakeCtx
    refs, fds = [], []
    saved = (pe._SafeQueue, pe.SimpleQueue, pe._check_system_limits, pe._CURRENT_DEPTH, pe.MAX_DEPTH)
    pe._SafeQueue = lambda **kw: NS(tag="CQ")
    pe.SimpleQueue = lambda reducers=None, ctx=None: NS(tag="RQ")
    pe._check_system_limits = lambda: None
    pe._CURRENT_DEPTH, pe.MAX_DEPTH = 0, 0
    try:
        for _ in range(n):
            ex = pe.ProcessPoolExecutor(max_workers=1, context=FakeCtx(Log(), accepts_env=True, mgmt_lock=None))
            w = ex._executor_manager_thread_wakeup
            refs.append(weakref.ref(w))
            del w
            if how == 0:
                ex.shutdown()
            elif how == 1:
                with ex:
                    pass
            del ex
        gc.collect()
    finally:
        pe._SafeQueue, pe.SimpleQueue, pe._check_system_limits, pe._CURRENT_DEPTH, pe.MAX_DEPTH = saved
    # unreachable => its two Connection objects are collected, and a collected Connection closes its descriptor
    # (descriptor numbers are not probed: an unrelated thread may re-use a number at any time)
    return all(r() is None for r in refs)


def check_shutdown_twice(wait2: bool, kill2: bool) -> bool:
    """
    post: _
    """
    # the real shutdown() called twice on the *same* object while the manager thread keeps running its pending work:
    # first shutdown(wait=False), then shutdown(wait=wait2, kill_workers=kill2) - the second request is recorded,
    # the manager thread is woken again (it is what makes a forced shutdown prompt) and joined when waited for
    log = Log()
    sl = FakeLock(log, "shutdown_lock")
    flags = FakeFlags(sl)
    joined = []

    class _Mgr:
        def join(self):
            joined.append((flags.shutdown, flags.kill_workers, log.count("wakeup", True)))
    mgr = _Mgr()
    fake = NS(_flags=flags, _executor_manager_thread=mgr,
              _executor_manager_thread_wakeup=FakeWakeup(log, sl), _shutdown_lock=sl,
              _call_queue="q", _result_queue="r", _processes_management_lock="l")
    saved = pe._threads_wakeups
    pe._threads_wakeups = {mgr: "x"}
    try:
        pe.ProcessPoolExecutor.shutdown(fake, wait=False)
        if log.count("wakeup", True) != 1 or joined or not flags.shutdown:
            return False
        pe.ProcessPoolExecutor.shutdown(fake, wait=wait2, kill_workers=kill2)
    finally:
        pe._threads_wakeups = saved
    if flags.kill_workers != bool(kill2) or sl.held:
        return False
    if log.count("wakeup", True) != 2:
        return False
    return joined == ([(True, bool(kill2), 2)] if wait2 else [])
