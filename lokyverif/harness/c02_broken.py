"""C02/C05/C06/C20 step contracts on the real manager-thread methods."""
import signal
from concurrent.futures.process import BrokenProcessPool as StdBroken
from typing import List

import loky.backend.utils as lu
import loky.process_executor as pe
from loky._base import Future
from loky.process_executor import (BrokenProcessPool, ShutdownExecutorError, TerminatedWorkerError,
                                   _ExecutorManagerThread, _RemoteTraceback, _ResultItem, _WorkItem)

from .c04_contain import _TB, _conc
from .fakes import NS, FakeCallQueue, FakeFlags, FakeLock, FakeProcess, FakeWakeup, Log

MT = _ExecutorManagerThread


def check_wait_table(result_ready: bool, wakeup_ready: bool, sent: List[bool], kind: int, code: int) -> bool:
    """
    pre: 1 <= len(sent) <= 2 and 0 <= kind <= 3 and -15 <= code <= 3
    pre: result_ready or wakeup_ready or any(sent)
    post: _
    """
    kind, code = _conc(kind, 3), _conc(code + 15, 18) - 15
    log = Log()
    procs = {10 + i: FakeProcess(log, 10 + i, alive=not s, exitcode=(code if s else None))
             for i, s in enumerate(sent)}
    item = [_ResultItem(3, result=1), 11, _RemoteTraceback("tb"), None][kind]

    def recv():
        log.add("recv")
        if kind == 3:
            raise EOFError("garbled")
        return item

    reader = NS(recv=recv)
    wake = FakeWakeup(log)
    fake = NS(result_queue=NS(_reader=reader), thread_wakeup=wake, processes=procs,
              shutdown_lock=FakeLock(log, "shutdown_lock"))

    def wait(objs):
        if objs[:2] != [reader, wake._reader] or sorted(objs[2:]) != sorted(p.sentinel for p in procs.values()):
            raise RuntimeError("harness: manager does not watch result pipe, wakeup pipe and every sentinel")
        out = [reader] if result_ready else []
        out += [wake._reader] if wakeup_ready else []
        return out + [p.sentinel for i, p in enumerate(procs.values()) if sent[i]]

    saved = (pe.wait, pe.traceback, lu.time)
    pe.wait, pe.traceback, lu.time = wait, _TB, NS(sleep=lambda s: log.add("sleep"))
    try:
        got, broken, bpe = MT.wait_result_broken_or_wakeup(fake)
    finally:
        pe.wait, pe.traceback, lu.time = saved
    if log.count("wakeup-clear") != 1:
        return False
    if result_ready:  # a result wins over a wakeup and over a sentinel
        if log.count("recv") != 1:
            return False
        if kind in (0, 1):
            return got is item and broken is False and bpe is None
        if not (broken and type(bpe) is BrokenProcessPool and isinstance(bpe, StdBroken)):
            return False
        if kind == 2:
            return bpe.__cause__ is item
        return isinstance(bpe.__cause__, _RemoteTraceback) and "EOFError" in str(bpe.__cause__) and got is None
    if log.count("recv") != 0 or got is not None:
        return False
    if wakeup_ready:
        return broken is False and bpe is None
    # only a sentinel: unannounced death -> TerminatedWorkerError naming the exit codes
    if not (broken and type(bpe) is TerminatedWorkerError and isinstance(bpe, StdBroken)):
        return False
    if code < 0:
        try:
            name = signal.Signals(-code).name
        except ValueError:
            name = "UNKNOWN"
    else:
        name = "EXIT"
    return f"{name}({code})" in str(bpe)


def check_exitcode_names(code: int, n: int) -> bool:
    """
    pre: -64 <= code <= 255 and 0 <= n <= 2
    post: _
    """
    codes = ([_conc(code + 64, 319) - 64] + [-9])[: _conc(n, 2)]
    s = lu._format_exitcodes(codes)
    parts = []
    for c in codes:
        if c < 0:
            try:
                n = signal.Signals(-c).name
            except ValueError:
                n = "UNKNOWN"
        elif c == 255:
            n = "UNKNOWN"
        else:
            n = "EXIT"
        parts.append(f"{n}({c})")
    return s == "{" + ", ".join(parts) + "}"


def _mk_manager(log, n_pending, n_procs, kill_flag=False, alive=None):
    sl = FakeLock(log, "shutdown_lock")
    flags = FakeFlags(sl, kill_workers=kill_flag)
    futs = []
    pending = {}
    for i in range(n_pending):
        f = Future()
        f.add_done_callback(lambda fut, i=i: log.add("failed", i, flags.broken is not None or flags.shutdown))
        futs.append(f)
        pending[i] = _WorkItem(f, len, (), {})
    procs = {10 + i: FakeProcess(log, 10 + i, alive=(alive[i] if alive else True)) for i in range(n_procs)}
    mgmt = FakeLock(log, "mgmt")
    cq = FakeCallQueue(log, 5)
    fake = NS(executor_flags=flags, pending_work_items=pending, processes=procs, shutdown_lock=sl,
              processes_management_lock=mgmt, call_queue=cq, thread_wakeup=FakeWakeup(log, sl),
              result_queue=NS(close=lambda: log.add("rq-close")))
    for name in ("kill_workers", "join_executor_internals", "shutdown_workers", "get_n_children_alive"):
        setattr(fake, name, (lambda nm: lambda *a, **k: getattr(MT, nm)(fake, *a, **k))(name))
    return fake, futs, procs, flags, cq, mgmt


def _kill_tree(log):
    def k(p):
        log.add("kill-tree", p.pid)
        p.kill()
        p.join()
    return k


def _reader_released(log):
    """C20 (finding F8): once every worker has been killed nobody reads the call queue any more; unless the
    parent closes its own copy of the reading end, a feeder thread blocked in send_bytes (task larger than the
    pipe buffer) never ends and keeps the thread and both pipe ends for ever.  The close must come after the
    pending futures were failed (the feeder's error callback must not resolve them with a made-up error)."""
    idx = [i for i, e in enumerate(log) if e[:1] == ("cq-reader-close",)]
    last_fail = max([i for i, e in enumerate(log) if e[:1] == ("failed",)], default=-1)
    return bool(idx) and idx[0] > last_fail


def check_terminate_broken(n_pending: int, n_procs: int, lookup_fails: bool) -> bool:
    """
    pre: 0 <= n_pending <= 3 and 0 <= n_procs <= 3
    post: _
    """
    n_pending, n_procs = _conc(n_pending, 3), _conc(n_procs, 3)
    log = Log()
    fake, futs, procs, flags, cq, mgmt = _mk_manager(log, n_pending, n_procs)
    plist = list(procs.values())
    bpe = TerminatedWorkerError("x")
    kt = _kill_tree(log)

    def kill_tree(p):
        kt(p)
        if lookup_fails:
            raise ProcessLookupError()

    saved = (pe.kill_process_tree, pe.sleep)
    pe.kill_process_tree, pe.sleep = kill_tree, lambda s: log.add("sleep")
    try:
        MT.terminate_broken(fake, bpe)
    finally:
        pe.kill_process_tree, pe.sleep = saved
    if flags.broken is not bpe or not flags.shutdown:
        return False
    for i, f in enumerate(futs):
        # every unresolved future fails with that same error; the flag was set before the first one failed
        if f.exception(timeout=0) is not bpe or log.count("failed", i, True) != 1:
            return False
    if fake.pending_work_items or procs:
        return False
    for p in plist:  # every remaining worker killed exactly once and reaped
        if log.count("kill-tree", p.pid) != 1 or p.alive:
            return False
    if not _reader_released(log):
        return False
    # internals joined: queues and wakeup closed (wakeup under the shutdown lock), no lock left held
    return (log.count("cq-close") == 1 and log.count("cq-join-thread") == 1 and log.count("rq-close") == 1
            and log.count("wakeup-close") == 1 and not mgmt.held and not fake.shutdown_lock.held
            and log.count("cq-put") == 0)


def check_flag_shutting_down(n_pending: int, n_procs: int, kill: bool, done_before: int) -> bool:
    """
    pre: 0 <= n_pending <= 3 and 0 <= n_procs <= 3 and 0 <= done_before <= 1
    post: _
    """
    n_pending, n_procs = _conc(n_pending, 3), _conc(n_procs, 3)
    log = Log()
    fake, futs, procs, flags, cq, mgmt = _mk_manager(log, n_pending, n_procs, kill_flag=kill)
    plist = list(procs.values())
    resolved = Future()
    if done_before:
        resolved.set_result("kept")
    saved = pe.kill_process_tree
    pe.kill_process_tree = _kill_tree(log)
    try:
        MT.flag_executor_shutting_down(fake)
    finally:
        pe.kill_process_tree = saved
    if not flags.shutdown or flags.broken is not None or flags.kill_workers != kill:
        return False
    if done_before and resolved.result(timeout=0) != "kept":
        return False
    if not kill:  # graceful: nothing is failed, nobody is killed
        return all(not f.done() for f in futs) and len(fake.pending_work_items) == n_pending and \
            len(procs) == n_procs and log.count("kill-tree") == 0
    for f in futs:
        if type(f.exception(timeout=0)) is not ShutdownExecutorError:
            return False
    return (not fake.pending_work_items) and (not procs) and _reader_released(log) and \
        all(log.count("kill-tree", p.pid) == 1 for p in plist)


def check_shutdown_workers(alive: List[bool], full_times: int) -> bool:
    """
    pre: len(alive) <= 3 and 0 <= full_times <= 3
    post: _
    """
    full_times = _conc(full_times, 3)
    n = len(alive)
    log = Log()
    fake, futs, procs, flags, cq, mgmt = _mk_manager(log, 0, n, alive=list(alive))
    cq.full_times = full_times
    plist = list(procs.values())
    saved = pe.sleep
    pe.sleep = lambda s: log.add("sleep")
    try:
        MT.shutdown_workers(fake)
    finally:
        pe.sleep = saved
    for p in plist:  # every exit lock released exactly once
        if p._worker_exit_lock.held or log.count("release", f"exit{p.pid}") != 1:
            return False
    sent = [e for e in log if e == ("cq-put", None)]
    want = n if any(alive) else 0  # exactly one sentinel per worker, none when nobody is left
    return len(sent) == want and not mgmt.held and log.count("cq-full") == (full_times if want else 0)


def check_join_internals(alive: List[bool]) -> bool:
    """
    pre: len(alive) <= 3
    post: _
    """
    n = len(alive)
    log = Log()
    fake, futs, procs, flags, cq, mgmt = _mk_manager(log, 0, n, alive=list(alive))
    plist = list(procs.values())
    saved = pe.sleep
    pe.sleep = lambda s: log.add("sleep")
    try:
        MT.join_executor_internals(fake)
    finally:
        pe.sleep = saved
    names = [e[0] for e in log if e[0] in ("cq-close", "cq-join-thread", "rq-close", "wakeup-close", "join")]
    # queues and wakeup closed once, then every worker joined; nothing stays registered
    if names[:4] != ["cq-close", "cq-join-thread", "rq-close", "wakeup-close"] or names[4:] != ["join"] * n:
        return False
    wc = [e for e in log if e[0] == "wakeup-close"]
    return (not procs) and all(p.joined == 1 for p in plist) and not mgmt.held and not fake.shutdown_lock.held


def check_wakeup_close_idempotent(times: int) -> bool:
    """
    pre: 1 <= times <= 3
    post: _
    """
    times = _conc(times, 3)
    log = Log()

    def pipe(duplex=False):
        return (NS(close=lambda: log.add("r-close"), poll=lambda: False),
                NS(close=lambda: log.add("w-close"), send_bytes=lambda b: log.add("send")))

    saved = pe.mp
    pe.mp = NS(Pipe=pipe)
    try:
        w = pe._ThreadWakeup()
    finally:
        pe.mp = saved
    w.wakeup()
    for _ in range(times):
        w.close()
    w.wakeup()  # after close: silently ignored
    w.clear()
    return log.count("r-close") == 1 and log.count("w-close") == 1 and log.count("send") == 1


def check_shutdown_call(wait: bool, kill: bool, started: bool) -> bool:
    """
    post: _
    """
    # real ProcessPoolExecutor.shutdown on a fake executor: whatever `wait` is, the flag is set first and the
    # manager thread is woken (under the shutdown lock) so that it can notice; join only when waited
    log = Log()
    sl = FakeLock(log, "shutdown_lock")
    flags = FakeFlags(sl)
    joined = []

    class _Mgr:
        def join(self):
            joined.append((flags.shutdown, log.count("wakeup", True)))
    mgr = _Mgr() if started else None
    fake = NS(_flags=flags, _executor_manager_thread=mgr,
              _executor_manager_thread_wakeup=FakeWakeup(log, sl), _shutdown_lock=sl,
              _call_queue="q", _result_queue="r", _processes_management_lock="l")
    saved = pe._threads_wakeups
    pe._threads_wakeups = {mgr: "x"} if started else {}
    try:
        pe.ProcessPoolExecutor.shutdown(fake, wait=wait, kill_workers=kill)
        left = dict(pe._threads_wakeups)
    finally:
        pe._threads_wakeups = saved
    if not flags.shutdown or flags.kill_workers != kill or sl.held:
        return False
    if log.count("wakeup", True) != 1:
        return False  # exactly one wake-up, sent while holding the shutdown lock, also when not waiting
    i_flag = [i for i, e in enumerate(log) if e == ("acquire", "shutdown_lock")][0]
    i_wake = [i for i, e in enumerate(log) if e[0] == "wakeup"][0]
    if i_wake < i_flag:
        return False  # the flag is published before the manager is woken
    if started and wait:
        return joined == [(True, 1)] and left == {}
    return joined == []


class _Livelock(Exception):
    pass


def check_shutdown_workers_small_queue(announced: List[bool], cap: int) -> bool:
    """
    pre: 1 <= len(announced) <= 3 and 1 <= cap <= 2
    post: _
    """
    # More sentinels than free call-queue slots. Workers that already announced their own exit (idle time-out)
    # sit on their exit lock and never read the queue; idle workers take one sentinel each. The environment makes
    # progress inside sleep(); if nothing can change any more and the loop keeps sleeping, that is a livelock
    # (the real code would give up after ~26 s by re-raising queue.Full in the manager thread).
    import queue as _q
    cap = _conc(cap, 2)
    n = len(announced)
    log = Log()
    fake, futs, procs, flags, cq, mgmt = _mk_manager(log, 0, n)
    plist = list(procs.values())
    for p, a in zip(plist, announced):
        p.announced = bool(a)
        p.is_alive = (lambda p=p: (p._worker_exit_lock.held if p.announced else p.alive))
    items = []

    def put_nowait(obj):
        if len(items) >= cap:
            log.add("cq-full")
            raise _q.Full()
        items.append(obj)
        log.add("cq-put", obj)
    cq.put_nowait = put_nowait
    idle = [0]

    def sleep(dt):
        for p in plist:
            if not p.announced and p.alive and items:
                items.pop()
                p.alive = False  # took its sentinel and left
                idle[0] = 0
                return
        idle[0] += 1
        if idle[0] > 4:
            raise _Livelock()
    saved = pe.sleep
    pe.sleep = sleep
    try:
        try:
            MT.shutdown_workers(fake)
        except _Livelock:
            return False  # stuck: queue full, nobody will ever take a sentinel, the loop spins until it gives up
        except _q.Full:
            return False
    finally:
        pe.sleep = saved
    return all(not p._worker_exit_lock.held for p in plist) and not mgmt.held
