"""C09: inductive step on the real `_ReusablePoolExecutor.get_reusable_executor`.

`cls` is a subclass whose constructor / shutdown / _resize only record; the
module-level singleton state is set to an arbitrary pre-state satisfying the
invariant (next id > every id issued; `_executor_kwargs` are the kwargs the
singleton was built with).  Histories follow by induction on this step.
"""
import loky.reusable_executor as rx
from loky.reusable_executor import _ReusablePoolExecutor

from .c04_contain import _conc
from .fakes import NS, FakeFlags, FakeLock, Log

CPU = 7


def _init0():
    pass


class _Ctx:
    def __init__(self, method):
        self.method = method

    def get_start_method(self):
        return self.method


_J = {int: _init0}
_REDUCERS = [(None, None), (_J, None), (_J, {}), (_J, _J)]
_CTX = [None, _Ctx("loky"), _Ctx("fork")]
_INIT = [None, _init0]


def _mk_cls(log):
    class Rec(_ReusablePoolExecutor):
        def __init__(self, submit_resize_lock, max_workers=None, context=None, timeout=None,
                     executor_id=0, **kw):
            self._flags = FakeFlags(FakeLock(log, "sl"))
            self._max_workers = max_workers
            self.executor_id = executor_id
            self.built = dict(context=context, timeout=timeout, **kw)
            self.lock = submit_resize_lock
            log.add("ctor", executor_id, max_workers)

        def shutdown(self, wait=True, kill_workers=False):
            log.add("shutdown", self.executor_id, wait, kill_workers)
            self._flags.shutdown = True
            if getattr(self, "interrupted", False):
                # the wait inside shutdown is cut short (KeyboardInterrupt in the caller, or "cannot join current
                # thread" when called from a done-callback): the instance is flagged but still winding down
                raise RuntimeError("wait interrupted")

        def _resize(self, max_workers):
            log.add("resize", self.executor_id, max_workers)
            self._max_workers = max_workers

        def __del__(self):
            pass
    return Rec


def check_factory_reducers(p_red: int, red: int, reuse: int, p_shutdown: bool, same_timeout: bool) -> bool:
    """
    pre: 0 <= p_red <= 3 and 0 <= red <= 3 and 0 <= reuse <= 2
    post: _
    """
    # the reducer dimension of the request on its own (other arguments fixed): none / job only / job + explicitly
    # empty result reducers / both, for the previous and the new request
    return _factory_step(True, False, bool(p_shutdown), 2, 0, 0, 2, 2, 0 if same_timeout else 1, 0, reuse, False, 0, False,
                         p_red, red)


def check_factory_step(has_prev: bool, p_broken: bool, p_shutdown: bool, p_mw: int, p_timeout: int,
                       p_init: int, next_id: int, mw: int, timeout: int, init: int, reuse: int,
                       kill: bool, ctx: int, interrupted: bool = False) -> bool:
    """
    pre: 1 <= p_mw <= 3 and 0 <= p_timeout <= 1 and 0 <= p_init <= 1
    pre: 1 <= next_id <= 5
    pre: -2 <= mw <= 3 and 0 <= timeout <= 1 and 0 <= init <= 1
    pre: 0 <= reuse <= 2 and 0 <= ctx <= 2
    post: _
    """
    return _factory_step(has_prev, p_broken, p_shutdown, p_mw, p_timeout, p_init, next_id, mw, timeout, init, reuse,
                         kill, ctx, interrupted, 0, 0)


def _factory_step(has_prev, p_broken, p_shutdown, p_mw, p_timeout, p_init, next_id, mw, timeout, init, reuse,
                  kill, ctx, interrupted, p_red, red):
    mw = _conc(mw + 2, 5) - 2
    reuse_v = [True, False, "auto"][_conc(reuse, 2)]
    ctx_v = _CTX[_conc(ctx, 2)]
    log = Log()
    Rec = _mk_cls(log)
    max_workers = None if mw == -2 else mw
    # reducers: none / job only (results default to them) / job + explicitly empty result reducers (results are
    # NOT customised) / both - four different requests; 'auto' reuses only when the request is unchanged
    jr, rr = _REDUCERS[_conc(red, 3)]
    kw = dict(context=ctx_v, timeout=timeout, job_reducers=jr, result_reducers=rr,
              initializer=_INIT[_conc(init, 1)], initargs=(), env=None)
    prev = None
    prev_kw = None
    if has_prev:
        pjr, prr = _REDUCERS[_conc(p_red, 3)]
        prev_kw = dict(context=None, timeout=p_timeout, job_reducers=pjr, result_reducers=prr,
                       initializer=_INIT[_conc(p_init, 1)], initargs=(), env=None)
        prev = Rec(rx._executor_lock, max_workers=p_mw, executor_id=next_id - 1, **prev_kw)
        prev._flags.shutdown = p_shutdown or p_broken
        prev._flags.broken = RuntimeError("broken") if p_broken else None
        prev.interrupted = bool(interrupted)
        del log[:]
    saved = (rx._executor, rx._executor_kwargs, rx._next_executor_id, rx.cpu_count)
    rx._executor, rx._executor_kwargs, rx._next_executor_id = prev, prev_kw, next_id
    rx.cpu_count = lambda: CPU
    try:
        try:
            ex, reused = Rec.get_reusable_executor(max_workers=max_workers, kill_workers=kill,
                                                   reuse=reuse_v, **kw)
            raised = None
        except ValueError as e:
            raised = e
        except RuntimeError as e:
            raised = e
        post = (rx._executor, rx._executor_kwargs, rx._next_executor_id)
    finally:
        rx._executor, rx._executor_kwargs, rx._next_executor_id, rx.cpu_count = saved
    held = rx._executor_lock.acquire(blocking=False)  # the factory lock is free again
    if held:
        rx._executor_lock.release()
    if not held:
        return False
    bad_args = (max_workers is not None and max_workers <= 0) or (ctx_v is not None and ctx_v.method == "fork")
    if bad_args:  # rejected without touching the singleton or spawning anything
        return raised is not None and post == (prev, prev_kw, next_id) and len(log) == 0
    if isinstance(raised, RuntimeError):
        # only the interrupted wait may raise; the previous instance is then still winding down, so the module must
        # not forget it: the next call has to find it (flagged shut down) and wait for it before building a new one
        return (prev is not None and prev.interrupted and post == (prev, prev_kw, next_id)
                and log == [("shutdown", next_id - 1, True, kill)])
    if raised is not None:
        return False
    if max_workers is None:
        eff = prev._max_workers if (reuse_v is True and prev is not None) else CPU
        if prev is not None and reuse_v is True:
            eff = p_mw
    else:
        eff = max_workers
    # returned executor is live, it is the registered singleton, ids stay monotonic
    if ex._flags.broken or ex._flags.shutdown or post[0] is not ex:
        return False
    if prev is None:
        return (not reused and log == [("ctor", next_id, eff)] and ex.built == kw and post[1] == kw
                and post[2] == next_id + 1 and ex.executor_id == next_id and ex.lock is rx._executor_lock)
    healthy = not (p_broken or p_shutdown)
    allow = (kw == prev_kw) if reuse_v == "auto" else reuse_v
    if healthy and allow:
        return (reused and ex is prev and log == [("resize", next_id - 1, eff)]
                and post == (prev, prev_kw, next_id) and ex._max_workers == eff)
    # replaced: the previous one is completely shut down first, then a fresh one from the new args
    return ((not reused) and ex is not prev
            and log == [("shutdown", next_id - 1, True, kill), ("ctor", next_id, eff)]
            and ex.built == kw and post[1] == kw and post[2] == next_id + 1
            and ex.executor_id == next_id and ex.executor_id > prev.executor_id)
