"""C18: what a worker inherits (real fork_exec, real Popen._launch with the C level
`_posixsubprocess.fork_exec`, `os.pipe/close/fdopen` replaced by recorders)."""
import os as _os
import sys as _sys
from typing import List

import loky.backend.fork_exec as fe
import loky.backend.popen_loky_posix as pop
import loky.backend.process as lproc

from .c04_contain import _conc
from .fakes import NS, Log

KEYS = ["A", "PATH"]
VALS = ["", "x", "y=z"]


def _env_from(sel: List[int]):
    # sel[i] in 0..3: 0 = key absent, 1..3 = VALS[sel-1]
    return {KEYS[i]: VALS[s - 1] for i, s in enumerate(sel) if s > 0}


def check_fork_exec(parent: List[int], overlay: List[int], use_none: bool, fds: List[int], fails: bool) -> bool:
    """
    pre: len(parent) == 2 and len(overlay) == 2 and 1 <= parent[0] <= 3 and 0 <= parent[1] <= 1
    pre: all(0 <= s <= 2 for s in overlay)
    pre: len(fds) <= 3 and all(3 <= f for f in fds) and len(set(fds)) == len(fds)
    post: _
    """
    parent = [_conc(s, 3) for s in parent]
    overlay = [_conc(s, 3) for s in overlay]
    penv, oenv = _env_from(parent), _env_from(overlay)
    log = Log()
    opened = set()

    def pipe():
        opened.update((40, 41))
        return 40, 41

    def close(fd):
        log.add("close", fd)
        opened.discard(fd)

    calls = []

    def c_fork_exec(*a):
        calls.append(a)
        if fails:
            raise OSError("exec failed")
        return 4242

    saved_os, saved_mod = fe.os, _sys.modules.get("_posixsubprocess")
    fe.os = NS(environ=penv, fsencode=_os.fsencode, pipe=pipe, close=close)
    _sys.modules["_posixsubprocess"] = NS(fork_exec=c_fork_exec)
    try:
        try:
            pid = fe.fork_exec(["python", "-m", "x"], fds, env=None if (use_none and not oenv) else oenv)
            raised = False
        except OSError:
            raised = True
    finally:
        fe.os = saved_os
        _sys.modules["_posixsubprocess"] = saved_mod
    if raised != fails or len(calls) != 1 or opened:
        return False  # both ends of the error pipe closed on success and on failure
    a = calls[0]
    merged = dict(penv)
    merged.update(oenv)  # overlay wins
    want_env = sorted(_os.fsencode(f"{k}={v}") for k, v in merged.items())
    if sorted(a[5]) != want_env or len(a[5]) != len(merged):
        return False
    return (a[0] == [b"python", b"-m", b"x"] and a[2] is True and a[3] == tuple(sorted(fds))
            and a[12] == 40 and a[13] == 41 and (raised or pid == 4242))


def check_launch(extra: List[int], tracker_fd: int, mp_fd: int, env_sel: int, init_main: bool, stale: int = 0) -> bool:
    """
    pre: len(extra) <= 2 and all(60 <= f <= 63 for f in extra) and len(set(extra)) == len(extra)
    pre: 20 <= tracker_fd <= 21 and 30 <= mp_fd <= 31 and 0 <= env_sel <= 1 and 0 <= stale <= 2
    post: _
    """
    stale = _conc(stale, 2)
    extra = [_conc(f - 60, 3) + 60 for f in extra]
    tracker_fd, mp_fd = _conc(tracker_fd - 20, 1) + 20, _conc(mp_fd - 30, 1) + 30
    log = Log()
    nxt = [100]
    opened = set()

    def pipe():
        r, w = nxt[0], nxt[0] + 1
        nxt[0] += 2
        opened.update((r, w))
        return r, w

    def close(fd):
        log.add("close", fd)
        opened.discard(fd)

    class F:
        def __init__(self, fd):
            self.fd = fd

        def __enter__(self):
            return self

        def __exit__(self, *a):
            close(self.fd)

        def write(self, b):
            log.add("write", self.fd)

    calls = []

    def fork_exec(cmd, fds, env=None):
        calls.append((list(cmd), list(fds), env, set(opened)))
        return 777

    env = [{}, {"K": "V"}][_conc(env_sel, 1)]
    proc = NS(_name="W", name="W", env=env, init_main_module=init_main)
    prep_calls = []

    def get_prep(name, flag):
        prep_calls.append((name, flag))
        return {"mp_tracker_args": {"fd": mp_fd, "pid": 1}}

    def dump(obj, fp):
        if obj is proc:
            for f in extra:  # connections pickled inside the process object register their fds
                popen.duplicate_for_child(f)

    saved = (pop.os, pop.reduction, pop.spawn, pop.resource_tracker, fe.fork_exec, pop.util)
    pop.os = NS(pipe=pipe, close=close, fdopen=lambda fd, mode: F(fd), name="posix", WNOHANG=1)
    pop.reduction = NS(dump=dump, _mk_inheritable=lambda fd: (log.add("inheritable", fd), fd)[1])
    pop.spawn = NS(get_preparation_data=get_prep)
    # the tracker object as the launch finds it: never started (_fd None), running (_fd current), or dead with the fd
    # of the previous tracker still recorded (stale); getfd() = ensure_running() + return the (possibly new) fd
    trk = NS(_fd=[tracker_fd, None, tracker_fd + 5][stale], _pid=5)

    def getfd():
        log.add("getfd")
        trk._fd = tracker_fd
        return tracker_fd
    trk.getfd = getfd
    trk.ensure_running = lambda: (log.add("ensure"), setattr(trk, "_fd", tracker_fd))[0]
    pop.resource_tracker = NS(_resource_tracker=trk)
    pop.util = NS(debug=lambda *a: None, Finalize=lambda obj, cb, args=(): log.add("finalize", cb is close, args))
    fe.fork_exec = fork_exec
    popen = pop.Popen.__new__(pop.Popen)
    popen.returncode, popen._fds = None, []
    try:
        popen._launch(proc)
    finally:
        pop.os, pop.reduction, pop.spawn, pop.resource_tracker, fe.fork_exec, pop.util = saved
    if len(calls) != 1 or prep_calls != [("W", init_main)]:
        return False
    cmd, fds, cenv, open_at_fork = calls[0]
    parent_r, child_w, child_r, parent_w = 100, 101, 102, 103
    # exactly the deliberate handles: payload pipe, sentinel pipe, both trackers, fds pickled in the process
    if sorted(fds) != sorted(set(extra) | {child_r, child_w, tracker_fd, mp_fd}) or len(fds) != len(extra) + 4:
        return False
    if cenv is not env or str(child_r) not in cmd:
        return False
    if not {child_r, child_w}.issubset(open_at_fork):
        return False
    # afterwards the parent closed both child ends once, kept parent_r as sentinel (closed by a finalizer)
    return (log.count("close", child_r) == 1 and log.count("close", child_w) == 1
            and log.count("close", parent_w) == 1 and log.count("close", parent_r) == 0
            and popen.sentinel == parent_r and popen.pid == 777
            and log.count("finalize", True, (parent_r,)) == 1 and opened == {parent_r})


def check_popen_fork_failure(fails: int, n_extra: int, errno_kind: int) -> bool:
    """
    pre: 0 <= fails <= 2 and 0 <= n_extra <= 1 and 0 <= errno_kind <= 1
    post: _
    """
    # the real Popen.__init__ when fork/exec fails (EAGAIN: process limit reached; ENOMEM) the first `fails` times:
    # either the error reaches the caller, or the launch that finally succeeds hands the child exactly the
    # deliberate handles *of that attempt* - no descriptor number left over from a failed attempt (by then it is
    # closed, or worse re-used by an unrelated file of the parent) - and every failed attempt closed its pipe ends
    import errno
    fails, n_extra, errno_kind = _conc(fails, 2), _conc(n_extra, 1), _conc(errno_kind, 1)
    extra = [60][:n_extra]
    tracker_fd, mp_fd = 20, 30
    log = Log()
    nxt = [100]
    opened = set()
    attempts = []

    def pipe():
        r, w = nxt[0], nxt[0] + 1
        nxt[0] += 2
        opened.update((r, w))
        return r, w

    def close(fd):
        log.add("close", fd)
        opened.discard(fd)

    class F:
        def __init__(self, fd):
            self.fd = fd

        def __enter__(self):
            return self

        def __exit__(self, *a):
            close(self.fd)

        def write(self, b):
            log.add("write", self.fd)

    def fork_exec(cmd, fds, env=None):
        attempts.append((list(fds), set(opened)))
        if len(attempts) <= fails:
            if errno_kind == 0:
                raise BlockingIOError(errno.EAGAIN, "Resource temporarily unavailable")
            raise OSError(errno.ENOMEM, "Cannot allocate memory")
        return 777

    proc = NS(_name="W", name="W", env={}, init_main_module=False)

    def dump(obj, fp):
        if obj is proc:
            for f in extra:
                popen.duplicate_for_child(f)

    trk = NS(_fd=tracker_fd, _pid=5, getfd=lambda: tracker_fd, ensure_running=lambda: None)
    saved = (pop.os, pop.reduction, pop.spawn, pop.resource_tracker, fe.fork_exec, pop.util, pop.__dict__.get("time"))
    pop.os = NS(pipe=pipe, close=close, fdopen=lambda fd, mode: F(fd), name="posix", WNOHANG=1)
    pop.reduction = NS(dump=dump, _mk_inheritable=lambda fd: fd)
    pop.spawn = NS(get_preparation_data=lambda name, flag: {"mp_tracker_args": {"fd": mp_fd, "pid": 1}})
    pop.resource_tracker = NS(_resource_tracker=trk)
    pop.util = NS(debug=lambda *a: None, info=lambda *a: None,
                  Finalize=lambda obj, cb, args=(): log.add("finalize", args, set(opened)))
    pop.time = NS(sleep=lambda dt: log.add("sleep"), time=lambda: 0.0, monotonic=lambda: 0.0)
    fe.fork_exec = fork_exec
    popen = pop.Popen.__new__(pop.Popen)
    try:
        try:
            pop.Popen.__init__(popen, proc)
            raised = False
        except OSError:
            raised = True
    finally:
        pop.os, pop.reduction, pop.spawn, pop.resource_tracker, fe.fork_exec, pop.util = saved[:6]
        if saved[6] is None:
            pop.__dict__.pop("time", None)
        else:
            pop.time = saved[6]
    if fails == 0 and raised:
        return False
    # pipe ends of attempt k (0-based): parent_r=100+4k, child_w=101+4k, child_r=102+4k, parent_w=103+4k
    for k, (fds, open_then) in enumerate(attempts):
        want = set(extra) | {102 + 4 * k, 101 + 4 * k, tracker_fd, mp_fd}
        if set(fds) != want or len(fds) != len(want):
            return False  # a handle the child must not get (stale number of an earlier attempt), or one missing
        if not {102 + 4 * k, 101 + 4 * k}.issubset(open_then):
            return False
    for k in range(len(attempts)):
        if 101 + 4 * k in opened or 102 + 4 * k in opened:
            return False  # child ends are closed in the parent after every attempt, failed or not
    # every descriptor is closed at most once by direct calls, and a descriptor handed to a finalizer (closed again
    # when the Popen object is collected) is neither closed directly nor already closed: a second close hits
    # whatever re-used the number in the meantime (e.g. the sentinel of the next worker)
    closed = [e[1] for e in log if e[0] == "close"]
    if len(closed) != len(set(closed)):
        return False
    for e in log:
        if e[0] == "finalize":
            for fd in e[1]:
                if fd in closed or fd not in e[2]:
                    return False
    if raised:
        return len(attempts) >= 1
    return popen.pid == 777 and len(attempts) == fails + 1


def check_process_defaults(kind: int) -> bool:
    """
    pre: 0 <= kind <= 1
    post: _
    """
    kind = _conc(kind, 1)
    if kind == 0:
        p = lproc.LokyProcess(target=len)
        return p.init_main_module is False and p.env == {} and p._start_method == "loky"
    p = lproc.LokyInitMainProcess(target=len)
    return p.init_main_module is True and p._start_method == "loky_init_main"


_INIT_EXC = [None, ValueError, ImportError, ModuleNotFoundError, KeyboardInterrupt, SystemExit]


def check_prepare_initializer(kind: int, viz: bool, a: int, user_raises: int = 0, viz_raises: int = 0) -> bool:
    """
    pre: 0 <= kind <= 2 and 0 <= user_raises <= 5 and 0 <= viz_raises <= 5
    post: _
    """
    import loky.initializers as li
    kind = _conc(kind, 2)
    uexc, vexc = _INIT_EXC[_conc(user_raises, 5)], _INIT_EXC[_conc(viz_raises, 5)]
    calls = []

    def user_init(*args):
        calls.append(("user", args))
        if uexc is not None:
            raise uexc("user initializer failed")

    def viz_init(*args):
        calls.append(("viz", args))
        if vexc is not None:
            raise vexc("profiler initializer failed")

    saved = li._make_viztracer_initializer_and_initargs
    li._make_viztracer_initializer_and_initargs = lambda: (viz_init, ("cfg",)) if viz else (None, ())
    try:
        try:
            init, args = li._prepare_initializer([None, user_init, 42][kind], (a, 2))
        except TypeError:
            return kind == 2  # a non-callable initializer is rejected up front
    finally:
        li._make_viztracer_initializer_and_initargs = saved
    if kind == 2:
        return False
    if init is None:
        return kind == 0 and not viz and args == ()
    # whatever an element of the chain raises reaches _process_worker (which then ends the worker and thereby
    # breaks the pool): no failure of an initializer may be swallowed on the way
    expect = uexc if kind == 1 and uexc is not None else (vexc if viz else None)
    try:
        init(*args)  # the way _process_worker calls it
        raised = None
    except BaseException as e:  # noqa: the set of exception types is the harness's own finite list
        if type(e) not in (ValueError, ImportError, ModuleNotFoundError, KeyboardInterrupt, SystemExit):
            raise
        raised = type(e)
    if raised is not expect:
        return False
    want = ([("user", (a, 2))] if kind == 1 else [])
    if not (kind == 1 and uexc is not None):
        want += [("viz", ("cfg",))] if viz else []
    return calls == want  # Nones filtered, order kept, each with its own initargs, nothing after a failure


def check_fork_exec_twice(first: List[int], second: List[int], overlay: List[int]) -> bool:
    """
    pre: len(first) == 2 and len(second) == 2 and len(overlay) == 2
    pre: all(0 <= s <= 2 for s in first) and all(0 <= s <= 2 for s in second) and all(0 <= s <= 2 for s in overlay)
    pre: overlay[0] > 0 or overlay[1] > 0
    post: _
    """
    # the same env= mapping object is used for every worker an executor ever spawns (respawn, resize):
    # two spawns with the parent's environment changed in between; each child must get the parent's
    # *current* environment overlaid with the mapping, and the mapping itself must be left alone
    first = [_conc(s, 2) for s in first]
    second = [_conc(s, 2) for s in second]
    overlay = [_conc(s, 2) for s in overlay]
    oenv = _env_from(overlay)
    oenv_before = dict(oenv)
    calls = []
    cur = {}

    saved_os, saved_mod = fe.os, _sys.modules.get("_posixsubprocess")
    fe.os = NS(environ=cur, fsencode=_os.fsencode, pipe=lambda: (40, 41), close=lambda fd: None)
    _sys.modules["_posixsubprocess"] = NS(fork_exec=lambda *a: (calls.append(a), 4242)[1])
    try:
        for sel in (first, second):
            cur.clear()
            cur.update(_env_from(sel))
            fe.fork_exec(["python"], [5], env=oenv)
    finally:
        fe.os = saved_os
        _sys.modules["_posixsubprocess"] = saved_mod
    if oenv != oenv_before or len(calls) != 2:
        return False
    for sel, a in zip((first, second), calls):
        merged = dict(_env_from(sel))
        merged.update(oenv_before)
        if sorted(a[5]) != sorted(_os.fsencode(f"{k}={v}") for k, v in merged.items()):
            return False
    return True
