"""C15: serialisation customisation is scoped and faithful."""
import copyreg
import functools
import pickle
from typing import Dict, List, Tuple

import loky.backend.reduction as red
import loky.process_executor as pe

from .c04_contain import _conc
from . import fakes
from .fakes import NS, FakeLock, Log


def _f(*a, **k):
    return (a, tuple(sorted(k.items())))


class _K:
    """A receiver that is also a sized container: an empty one is falsy (the reducers must select by identity,
    never by truthiness)."""

    def __init__(self, v, size=1):
        self.v = v
        self.size = size

    def __len__(self):
        return self.size

    def m(self, x):
        return (self.v, x)

    @classmethod
    def c(cls, x):
        return (cls.__name__, x)

    def __eq__(self, o):
        return isinstance(o, _K) and o.v == self.v

    __hash__ = None


def check_partial_fidelity(args: Tuple[int, ...], has_a: bool, has_b: bool, va: int, vb: int, x: int) -> bool:
    """
    pre: len(args) <= 3
    post: _
    """
    kw = {}
    if has_a:
        kw["a"] = va
    if has_b:
        kw["key"] = vb
    p = functools.partial(_f, *args, **kw)
    fn, a = red._reduce_partial(p)
    q = fn(*a)
    # (identity of q.func is not observable under CrossHair, which proxies callables given to
    # partial; equal behaviour is what the property asks for)
    return (isinstance(q, functools.partial) and q.func(x, k=x) == _f(x, k=x) and q.args == tuple(args)
            and q.keywords == dict(kw) and q(x) == p(x) and q(x, z=x) == p(x, z=x))


def check_method_fidelity(kind: int, v: int, x: int, size: int = 1) -> bool:
    """
    pre: 0 <= kind <= 3 and 0 <= size <= 2
    post: _
    """
    kind = _conc(kind, 3)
    if kind == 0:
        o = _K(v, _conc(size, 2))
        m = o.m
        g, a = red._reduce_method(m)
        r = g(*a)
        return r.__self__ is o and r(x) == m(x) and red._dispatch_table[type(m)] is red._reduce_method
    if kind == 1:
        m = _K.c
        g, a = red._reduce_method(m)
        r = g(*a)
        return r.__self__ is _K and r(x) == m(x) and red._dispatch_table[type(m)] is red._reduce_method
    if kind == 2:
        g, a = red._reduce_method_descriptor(list.append)
        r = g(*a)
        l1, l2 = [v], [v]
        r(l1, x)
        list.append(l2, x)
        return r is list.append and l1 == l2 and \
            red._dispatch_table[type(list.append)] is red._reduce_method_descriptor
    g, a = red._reduce_method_descriptor(int.__add__)
    r = g(*a)
    return r is int.__add__ and r(3, 4) == 7 and \
        red._dispatch_table[type(int.__add__)] is red._reduce_method_descriptor


def check_roundtrip_backends(backend: int, kind: int, empty: bool = False) -> bool:
    """
    pre: 0 <= backend <= 1 and 0 <= kind <= 4
    post: _
    """
    backend, kind = _conc(backend, 1), _conc(kind, 4)
    saved = red._loky_pickler_name
    red.set_loky_pickler(["cloudpickle", "pickle"][backend])
    try:
        o = _K(3, 0 if empty else 2)
        obj = [o.m, _K.c, list.append, int.__add__, fakes.PARTIAL_EXEMPLAR][kind]
        back = pickle.loads(red.dumps(obj))
    finally:
        red.set_loky_pickler(saved)
    if kind == 0:
        return back(5) == obj(5) and back.__self__ == o
    if kind == 1:
        return back(5) == obj(5)
    if kind in (2, 3):
        return back is obj
    return back.func(7, q=1) == fakes.kwfn(7, q=1) and back.args == (1, 2) and back.keywords == {"a": 3} and back(9) == obj(9)


class _T1:
    def __init__(self, v):
        self.v = v


class _T2(_T1):
    pass


def _mk_reducer(tag):
    def r(o):
        return (tuple, ((tag, o.v),))
    return r


_R = {(_T1, "A"): _mk_reducer("A"), (_T1, "B"): _mk_reducer("B"), (_T2, "A"): _mk_reducer("A2")}


def _snapshot():
    from cloudpickle import CloudPickler
    return (dict(copyreg.dispatch_table), dict(getattr(CloudPickler, "dispatch_table", {})),
            dict(red._dispatch_table))


def check_scoping_2(backend: int, sets: List[int]) -> bool:
    """
    pre: 0 <= backend <= 1
    pre: 1 <= len(sets) <= 2 and all(0 <= s <= 3 for s in sets)
    post: _
    """
    return _scoping(backend, sets)


def check_scoping_3(backend: int, sets: List[int]) -> bool:
    """
    pre: 0 <= backend <= 1
    pre: 1 <= len(sets) <= 3 and all(0 <= s <= 3 for s in sets)
    post: _
    """
    return _scoping(backend, sets)


def _scoping(backend, sets):
    backend = _conc(backend, 1)
    sets = [_conc(s, 3) for s in sets]
    saved = red._loky_pickler_name
    red.set_loky_pickler(["cloudpickle", "pickle"][backend])
    before = _snapshot()
    ok = True
    try:
        picklers = []
        for s in sets:
            # 0: no reducers, 1: {_T1: A}, 2: {_T1: B}, 3: {_T1: A, _T2: A2}
            reducers = [None, {_T1: _R[(_T1, "A")]}, {_T1: _R[(_T1, "B")]},
                        {_T1: _R[(_T1, "A")], _T2: _R[(_T2, "A")]}][s]
            out = pickle.loads(red.dumps(_T1(7), reducers=reducers))
            want = {0: None, 1: ("A", 7), 2: ("B", 7), 3: ("A", 7)}[s]
            if want is None:
                ok = ok and isinstance(out, _T1) and out.v == 7
            else:
                ok = ok and out == want
            out2 = pickle.loads(red.dumps(_T2(8), reducers=reducers))
            if s == 3:
                ok = ok and out2 == ("A2", 8)
            else:
                ok = ok and isinstance(out2, _T2) and out2.v == 8
            import io
            P = red.get_loky_pickler()(io.BytesIO(), reducers=reducers)
            picklers.append((P, dict(P.dispatch_table)))
            # loky's built-ins are present in every instance
            for t, f in red._dispatch_table.items():
                ok = ok and P.dispatch_table.get(t) is f
            # nothing process-wide changed, earlier picklers' tables untouched
            ok = ok and _snapshot() == before
            for Q, tab in picklers:
                ok = ok and dict(Q.dispatch_table) == tab
    finally:
        red.set_loky_pickler(saved)
    return ok and _snapshot() == before


def check_result_reducers_default(job: int, res: int) -> bool:
    """
    pre: 0 <= job <= 1 and 0 <= res <= 1
    post: _
    """
    jr = {_T1: _R[(_T1, "A")]} if _conc(job, 1) else None
    rr = {_T1: _R[(_T1, "B")]} if _conc(res, 1) else None
    log = Log()
    saved = (pe._SafeQueue, pe.SimpleQueue, pe._ThreadWakeup, pe._check_system_limits)
    pe._SafeQueue = lambda **kw: (log.add("callq", kw.get("reducers")), NS())[1]
    pe.SimpleQueue = lambda reducers=None, ctx=None: (log.add("resq", reducers), NS())[1]
    pe._ThreadWakeup = lambda: NS()
    pe._check_system_limits = lambda: None
    ctx = NS(Lock=lambda: FakeLock(log, "mgmt"), get_start_method=lambda: "loky")
    try:
        pe.ProcessPoolExecutor(max_workers=2, job_reducers=jr, result_reducers=rr, context=ctx)
    finally:
        pe._SafeQueue, pe.SimpleQueue, pe._ThreadWakeup, pe._check_system_limits = saved
    want_res = rr if rr is not None else jr
    return [e for e in log if e[0] in ("callq", "resq")] == [("callq", jr), ("resq", want_res)]


def check_pickler_selection(seq: List[int], at: int, later: int) -> bool:
    """
    pre: 1 <= len(seq) <= 3 and all(0 <= s <= 3 for s in seq)
    pre: 0 <= at < len(seq) and 0 <= later <= 3
    post: _
    """
    seq = [_conc(s, 3) for s in seq]
    at, later = _conc(at, 2), _conc(later, 3)
    opts = [None, "", "cloudpickle", "pickle"]
    saved = red._loky_pickler_name
    ok = True
    item = None
    try:
        for i, s in enumerate(seq):
            red.set_loky_pickler(opts[s])
            want = {None: red.ENV_LOKY_PICKLER or "cloudpickle", "": "cloudpickle"}.get(opts[s], opts[s])
            if want in ("", None):
                want = "cloudpickle"
            ok = ok and red.get_loky_pickler_name() == want
            ok = ok and (red.get_loky_pickler().__mro__[1].__module__.split(".")[0] in
                         (("cloudpickle",) if want == "cloudpickle" else ("pickle", "_pickle")))
            if i == at:
                item = pe._CallItem(1, red.get_loky_pickler_name, (), {})
                carried = want
        ok = ok and item.loky_pickler == carried
        red.set_loky_pickler(opts[later])  # the worker may have been left in any mode by earlier tasks
        # calling the item re-selects the pickler recorded at submit time, before the body runs
        ok = ok and item() == carried and red.get_loky_pickler_name() == carried
    finally:
        red.set_loky_pickler(saved)
    return ok


def check_partial_roundtrip_variants(backend: int, has_kw: bool, has_attr: bool, x: int) -> bool:
    """
    pre: 0 <= backend <= 1 and 0 <= x <= 2
    post: _
    """
    # functools.partial with/without keywords and with/without instance attributes, through the real
    # dumps + loads of both back-ends: equal func behaviour, args, keywords and call results
    backend, x = _conc(backend, 1), _conc(x, 2)
    p = fakes.PARTIALS[(bool(has_kw), bool(has_attr))]
    saved = red._loky_pickler_name
    red.set_loky_pickler(["cloudpickle", "pickle"][backend])
    try:
        back = pickle.loads(red.dumps(p))
    finally:
        red.set_loky_pickler(saved)
    return (back.args == p.args and back.keywords == p.keywords and back(x) == p(x)
            and back(x, z=x) == p(x, z=x) and back.func(7, q=1) == fakes.kwfn(7, q=1))


def check_simple_queue_put(with_reducer: bool, has_wlock: bool, send_fails: bool, v: int) -> bool:
    """
    pre: 0 <= v <= 3
    post: _
    """
    v = _conc(v, 3)  # the payload goes through the C pickler: concrete values only
    # the result path of a worker: the real loky SimpleQueue.put pickles with that queue's reducers (and only
    # those), sends exactly one message, under the write lock, and leaves the lock free also when sending fails
    import loky.backend.queues as lq
    log = Log()
    wl = FakeLock(log, "wlock")
    sent = []

    def send_bytes(b):
        log.add("send", wl.held)
        if send_fails:
            raise OSError("pipe broken")
        sent.append(bytes(b))

    q = lq.SimpleQueue.__new__(lq.SimpleQueue)
    q._reducers = {_T1: _R[(_T1, "B")]} if with_reducer else None
    q._wlock = wl if has_wlock else None
    q._writer = NS(send_bytes=send_bytes)
    before = _snapshot()
    o = _T1(v) if with_reducer else (v, "plain")
    try:
        q.put(o)
        raised = False
    except OSError:
        raised = True
    if raised != bool(send_fails) or wl.held or _snapshot() != before:
        return False
    if log.count("send") != 1 or (has_wlock and log.count("send", True) != 1):
        return False
    if send_fails:
        return sent == []
    back = pickle.loads(sent[0])
    return back == (("B", v) if with_reducer else (v, "plain")) and len(sent) == 1


def check_reducers_history_2(backend: int, tags: List[int], modes: List[int]) -> bool:
    """
    pre: 0 <= backend <= 1
    pre: len(tags) == 2 and len(modes) == len(tags)
    pre: all(0 <= t <= 1 for t in tags) and all(0 <= m <= 2 for m in modes)
    post: _
    """
    return _reducers_history(backend, tags, modes)


def check_reducers_history_3(backend: int, tags: List[int], modes: List[int]) -> bool:
    """
    pre: 0 <= backend <= 1
    pre: 2 <= len(tags) <= 3 and len(modes) == len(tags)
    pre: all(0 <= t <= 1 for t in tags) and all(0 <= m <= 2 for m in modes)
    post: _
    """
    return _reducers_history(backend, tags, modes)


def _reducers_history(backend, tags, modes):
    # 'scoped to where it was requested' over a *history* of requests: what a pickler applies is the reducers mapping
    # it was given, as it is when the pickler is built - not what an earlier pickler was given through the same dict
    # object (mode 1: the caller replaced the function for a type it had registered before), through another dict that
    # now lives at the same address (mode 0: the earlier mapping was dropped first; CPython reuses the slot), or
    # through an equal-keyed mapping (mode 2: both alive).
    backend = _conc(backend, 1)
    tags = [_conc(t, 1) for t in tags]
    modes = [_conc(m, 2) for m in modes]
    saved = red._loky_pickler_name
    red.set_loky_pickler(["cloudpickle", "pickle"][backend])
    ok = True
    keep = []
    try:
        d = None
        for t, m in zip(tags, modes):
            f = _R[(_T1, "AB"[t])]
            if d is None or m == 2:
                keep.append(d)
                d = {_T1: f}
            elif m == 1:
                d[_T1] = f
            else:
                del d
                d = {_T1: f}
            out = pickle.loads(red.dumps(_T1(5), reducers=d))
            ok = ok and out == ("AB"[t], 5)
            import io
            P = red.get_loky_pickler()(io.BytesIO(), reducers=d)
            ok = ok and P.dispatch_table.get(_T1) is f
            # without reducers nothing of the history is visible
            plain = pickle.loads(red.dumps(_T1(6)))
            ok = ok and isinstance(plain, _T1) and plain.v == 6
    finally:
        red.set_loky_pickler(saved)
    return ok
