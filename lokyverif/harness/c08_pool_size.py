"""C08/C18/C19 step contracts on the real spawn path: _adjust_process_count,
_ensure_executor_running, the respawn branch of process_result_item."""
from typing import List

import loky.process_executor as pe
from loky.process_executor import ProcessPoolExecutor, _ExecutorManagerThread, _process_worker

from .c04_contain import _conc
from .fakes import NS, FakeCtx, FakeLock, FakeProcess, Log


def _init(*a):
    pass


def _mk_executor(log, n_procs, max_workers, depth=0, env_ok=True, ctor_depth=None):
    """A real ProcessPoolExecutor object built by the real constructor (so that whatever __init__ caches is
    there), with a recording context and stubbed queues; the process table is then filled in."""
    lock_holder = []
    ctx = FakeCtx(log, accepts_env=env_ok, mgmt_lock=None)
    saved = (pe._SafeQueue, pe.SimpleQueue, pe._ThreadWakeup, pe._check_system_limits, pe._CURRENT_DEPTH, pe.MAX_DEPTH)
    pe._SafeQueue = lambda **kw: NS(tag="CQ")
    pe.SimpleQueue = lambda reducers=None, ctx=None: NS(tag="RQ")
    pe._ThreadWakeup = lambda: NS()
    pe._check_system_limits = lambda: None
    pe._CURRENT_DEPTH = depth if ctor_depth is None else ctor_depth
    pe.MAX_DEPTH = 0
    try:
        ex = ProcessPoolExecutor(max_workers=max_workers, context=ctx, timeout=3.5, initializer=_init,
                                 initargs=(1, 2), env={"K": "V"})
    finally:
        (pe._SafeQueue, pe.SimpleQueue, pe._ThreadWakeup, pe._check_system_limits, pe._CURRENT_DEPTH, pe.MAX_DEPTH) = saved
    lock = ex._processes_management_lock
    ctx.mgmt_lock = lock
    ex._processes = {10 + i: FakeProcess(log, 10 + i) for i in range(n_procs)}
    del log[:]
    return ex, ctx, lock


def check_adjust(n: int, mw: int, depth: int, env_ok: bool, ctor_depth: int) -> bool:
    """
    pre: 0 <= n <= 4 and 1 <= mw <= 4 and 0 <= depth <= 20 and 0 <= ctor_depth <= depth
    post: _
    """
    # ctor_depth: what the module global read when the executor was constructed (0 inside a worker's
    # initializer, which runs before the worker publishes its depth); depth: the creating process's
    # depth, in force when workers are actually spawned. The worker must get depth + 1.
    n, mw = _conc(n, 4), _conc(mw, 4)
    log = Log()
    ex, ctx, lock = _mk_executor(log, n, mw, env_ok=env_ok, ctor_depth=ctor_depth)
    before = dict(ex._processes)
    saved = pe._CURRENT_DEPTH
    pe._CURRENT_DEPTH = depth
    try:
        with lock:
            ProcessPoolExecutor._adjust_process_count(ex)
    finally:
        pe._CURRENT_DEPTH = saved
    want_new = max(0, mw - n)
    if len(ctx.created) != want_new or len(ex._processes) != max(n, mw):
        return False  # spawns exactly the missing number, never exceeds max_workers
    for pid, p in before.items():
        if ex._processes.get(pid) is not p:
            return False
    for p in ctx.created:
        if ex._processes.get(p.pid) is not p or not p.started or p.lock_held_at_creation is not True:
            return False
        a = p.args
        # positions _process_worker binds them to
        if p.target is not _process_worker or len(a) != 8:
            return False
        if a[0] is not ex._call_queue or a[1] is not ex._result_queue or a[2] is not _init or a[3] != (1, 2) \
                or a[4] is not lock:
            return False
        if a[5] != 3.5 or a[6] is not p._worker_exit_lock or a[7] != depth + 1:
            return False
        if not a[6].held:  # the exit lock is handed over already acquired
            return False
        if env_ok and p.kw.get("env") != {"K": "V"}:
            return False
    return True


def check_ensure_running(n: int, mw: int, started: bool, timeout_kind: int = 1) -> bool:
    """
    pre: 0 <= n <= 4 and 1 <= mw <= 4 and 0 <= timeout_kind <= 2
    post: _
    """
    n, mw = _conc(n, 4), _conc(mw, 4)
    log = Log()
    ex, ctx, lock = _mk_executor(log, n, mw)
    # workers also leave on their own without an idle time-out (memory-leak protection), so the top-up must not
    # depend on the configuration: manager thread already started or not, timeout None / positive / zero
    ex._timeout = [None, 3.5, 0][_conc(timeout_kind, 2)]
    ex._executor_manager_thread = object() if started else None
    ex._adjust_process_count = lambda: (log.add("adjust", lock.held), ProcessPoolExecutor._adjust_process_count(ex))[0]
    ex._start_executor_manager_thread = lambda: log.add("start-manager", lock.held, len(ex._processes))
    ProcessPoolExecutor._ensure_executor_running(ex)
    if lock.held:
        return False
    if log.count("adjust", True) != (1 if n != mw else 0) or log.count("adjust", False):
        return False
    if len(ex._processes) != max(n, mw):
        return False
    # every submit tops the pool back up to full size before the manager is (re)started
    k = log.count("start-manager", True, max(n, mw))
    return k == 1 or (started and k == 0 and log.count("start-manager") == 0)


def check_pid_message(n: int, mw: int, victim: int, n_pending: int, n_running: int, exec_alive: bool, slow: bool = False) -> bool:
    """
    pre: 1 <= n <= 3 and 1 <= mw <= 3 and 0 <= victim <= 3
    pre: 0 <= n_running <= n_pending <= 3
    post: _
    """
    n, mw, victim = _conc(n, 3), _conc(mw, 3), _conc(victim, 3)
    n_pending, n_running = _conc(n_pending, 3), _conc(n_running, 3)
    log = Log()
    ex, ctx, lock = _mk_executor(log, n, mw)
    ex._adjust_process_count = lambda: (log.add("adjust", lock.held), ProcessPoolExecutor._adjust_process_count(ex))[0]
    procs = ex._processes
    pid = 10 + victim  # may be a pid that is not (or no longer) registered
    p = procs.get(pid)
    if p is not None:
        p.slow = bool(slow)  # the leaving worker may take arbitrarily long to terminate (atexit handlers, nested pools)
    fake = NS(processes=procs, processes_management_lock=lock,
              pending_work_items={i: None for i in range(n_pending)},
              running_work_items=list(range(n_running)),
              executor_reference=lambda: ex if exec_alive else None)
    warned = []
    saved = pe.warnings
    pe.warnings = NS(warn=lambda *a, **k: warned.append(a))
    try:
        _ExecutorManagerThread.process_result_item(fake, pid)
    finally:
        pe.warnings = saved
    if lock.held:
        return False
    if p is not None:
        # announced exit: removed, released exactly once, joined
        if pid in procs or p._worker_exit_lock.held or p.joined != 1 or log.count("release", f"exit{pid}") != 1:
            return False
        if p.alive:
            return False  # the manager waited for the worker to be gone (nothing is left to be mistaken for a crash)
    left = n - (1 if p is not None else 0)
    need = (n_pending - n_running > 0) or (n_running > left)
    if need and exec_alive and left < mw:
        # missing workers are re-spawned, under the management lock, up to max_workers and not beyond
        return (log.count("adjust", True) == 1 and len(procs) == mw and len(warned) == 1
                and all(q.lock_held_at_creation for q in ctx.created))
    return log.count("adjust", True) == 0 and log.count("adjust", False) == 0 and len(procs) == left and not ctx.created


def check_worker_depth_and_init(depth: int, init_kind: int, n_tasks: int) -> bool:
    """
    pre: 0 <= depth <= 50 and 0 <= init_kind <= 3 and 0 <= n_tasks <= 2
    post: _
    """
    from .c04_contain import _CQ, _RQ, _with_tb_stub
    from loky.process_executor import _CallItem
    init_kind, n_tasks = _conc(init_kind, 3), _conc(n_tasks, 2)
    log = Log()
    ex, ctx, lock = _mk_executor(log, 0, 1)
    order = []

    def initializer(*a):
        order.append(("init", a))
        # user code of the worker: an executor created *here* is checked against, and spawns from, the depth
        # the worker has published at this point - it must already be the worker's own depth
        order.append(("depth-in-init", pe._CURRENT_DEPTH))
        if init_kind == 1:
            raise ValueError("init failed")
        if init_kind == 2:
            raise SystemExit(3)
        if init_kind == 3:
            raise KeyboardInterrupt()

    ex._initializer = initializer
    saved = (pe._CURRENT_DEPTH, pe._global_shutdown, pe._enable_faulthandler_if_needed, pe.time,
             pe._USE_PSUTIL, pe.LOGGER)
    pe._CURRENT_DEPTH = depth
    try:
        with lock:
            ProcessPoolExecutor._adjust_process_count(ex)
        p = ctx.created[0]
        args = list(p.args)

        class CQ(_CQ):
            def get(self, block=True, timeout=None):
                order.append(("get",))
                return _CQ.get(self, block, timeout)

        cq = CQ([_CallItem(k, len, ((),), {}) for k in range(n_tasks)] + [None])
        rq = _RQ([])
        args[0], args[1] = cq, rq
        args[6] = FakeLock(log, "exit")
        pe._enable_faulthandler_if_needed = lambda: None
        pe.time = lambda: 0.0
        pe._USE_PSUTIL = False
        pe.LOGGER = NS(critical=lambda *a, **k: order.append(("critical",)))
        pe._CURRENT_DEPTH = 0  # the worker is a fresh interpreter
        p.target(*args)
        seen = pe._CURRENT_DEPTH
    finally:
        (pe._CURRENT_DEPTH, pe._global_shutdown, pe._enable_faulthandler_if_needed, pe.time,
         pe._USE_PSUTIL, pe.LOGGER) = saved
    if order[0] != ("init", (1, 2)) or sum(1 for o in order if o[0] == "init") != 1:
        return False  # initializer first, exactly once, with its initargs
    if order[1] != ("depth-in-init", depth + 1):
        return False  # C19: the nesting depth is in force before any user code of the worker runs (finding F12)
    if init_kind != 0:
        # failure: the worker returns without ever serving a task
        return ("get",) not in order and rq.items == [] and ("critical",) in order
    return seen == depth + 1 and order.count(("get",)) == n_tasks + 1 and len(rq.items) == n_tasks + 1


def check_only_spawn_site() -> bool:
    """
    post: _
    """
    import ast
    import inspect
    import loky.reusable_executor as rx
    sites = []
    for mod in (pe, rx):
        tree = ast.parse(inspect.getsource(mod))
        for fn in ast.walk(tree):
            if isinstance(fn, (ast.FunctionDef,)):
                for node in ast.walk(fn):
                    if isinstance(node, ast.Call) and isinstance(node.func, ast.Attribute) and \
                            node.func.attr == "Process" and "psutil" not in ast.dump(node.func):
                        sites.append(fn.name)
    return set(sites) == {"_adjust_process_count"}


def check_worker_timeout_path(events: List[int], lock_held: List[bool]) -> bool:
    """
    pre: len(events) <= 3 and len(lock_held) == len(events)
    pre: all(0 <= e <= 1 for e in events)
    post: _
    """
    # real _process_worker against a call queue that delivers tasks (1) and idle time-outs (0 = queue.Empty);
    # when a time-out fires the management lock is free or held (workers being spawned / resize in progress)
    import os
    import queue as _q
    from .c04_contain import _RQ, _with_tb_stub
    from loky.process_executor import _CallItem, _ResultItem
    events = [_conc(e, 1) for e in events]
    log = Log()
    order = []
    idx = [0]
    held_now = [False]

    class CQ:
        def get(self, block=True, timeout=None):
            if timeout != 2.5:
                raise RuntimeError("harness: worker does not wait with its configured timeout")
            i = idx[0]
            idx[0] += 1
            if i >= len(events):
                order.append(("get-sentinel",))
                return None
            if events[i] == 0:
                held_now[0] = bool(lock_held[i])
                order.append(("timeout", held_now[0]))
                raise _q.Empty()
            order.append(("task", i))
            return _CallItem(i, len, ((),), {})

    class MLock:
        def acquire(self, block=True):
            order.append(("try-mgmt", block))
            return not held_now[0]

        def release(self):
            order.append(("rel-mgmt",))

        def __enter__(self):  # a blocking acquisition is not part of the protocol: recorded, compared below
            order.append(("block-on-mgmt",))
            return True

        def __exit__(self, *a):
            order.append(("rel-mgmt",))

    rq = _RQ([])
    orig_put = rq.put
    rq.put = lambda obj: (order.append(("put", obj if isinstance(obj, int) else ("result", obj.work_id))), orig_put(obj))[1]
    exit_lock = FakeLock(log, "exit")
    saved = (pe._CURRENT_DEPTH, pe._global_shutdown, pe._enable_faulthandler_if_needed, pe.time, pe._USE_PSUTIL)
    pe._enable_faulthandler_if_needed = lambda: None
    pe.time = lambda: 0.0
    pe._USE_PSUTIL = False
    try:
        _process_worker(CQ(), rq, None, (), MLock(), 2.5, exit_lock, 1)
    finally:
        (pe._CURRENT_DEPTH, pe._global_shutdown, pe._enable_faulthandler_if_needed, pe.time, pe._USE_PSUTIL) = saved
    # reference: serve tasks; on a time-out leave iff the management lock is free
    exp = []
    left = False
    for i, e in enumerate(events):
        if e == 1:
            exp += [("task", i), ("put", ("result", i))]
        else:
            exp += [("timeout", bool(lock_held[i])), ("try-mgmt", False)]
            if not lock_held[i]:
                exp += [("rel-mgmt",), ("put", os.getpid())]
                left = True
                break
    if not left:
        exp += [("get-sentinel",), ("put", os.getpid())]
    # the exit is announced exactly once, last, never while a fetched task is unanswered, then the exit lock is taken
    return order == exp and exit_lock.held and log[-1] == ("acquire", "exit")


def check_adjust_start_failure(n: int, mw: int, fail_at: int) -> bool:
    """
    pre: 0 <= n <= 2 and 1 <= mw <= 4 and n < mw and 0 <= fail_at <= 3
    post: _
    """
    # the fail_at-th Process.start() of a top-up raises (fork: EAGAIN / ENOMEM): the error reaches the caller, and
    # every worker that *was* started is registered - an unregistered live worker keeps eating tasks and sentinels
    # behind the executor's back (C08: registered == running; C10: later resizes count from the table)
    n, mw, fail_at = _conc(n, 2), _conc(mw, 4), _conc(fail_at, 3)
    log = Log()
    ex, ctx, lock = _mk_executor(log, n, mw)
    ctx.fail_start_at = fail_at
    try:
        with lock:
            ProcessPoolExecutor._adjust_process_count(ex)
        raised = False
    except OSError:
        raised = True
    want_fail = fail_at < mw - n
    if raised != want_fail:
        return False
    started = [p for p in ctx.created if p.started]
    for p in started:
        if ex._processes.get(p.pid) is not p:
            return False
    for pid, p in ex._processes.items():
        if pid >= 50 and not p.started:
            return False  # nothing that never started is registered
    return len(ex._processes) == n + len(started) and (raised or len(ex._processes) == mw)
