"""C03 step contracts on the real bookkeeping methods (inductive steps).

Pre-states are arbitrary *consistent* states (the representation invariant is
the `pre:` lines); one real method call; post-state compared with a reference.
"""
import queue
from typing import List

import loky.process_executor as pe
from loky._base import Future
from loky.process_executor import (ProcessPoolExecutor, ShutdownExecutorError,
                                   _ExecutorManagerThread, _ResultItem, _WorkItem)

from .fakes import NS, FakeCallQueue, FakeFlags, FakeLock, FakeWakeup, Log

PENDING, RUNNING, FINISHED = "PENDING", "RUNNING", "FINISHED"


def _fn(*a, **k):
    return ("fn", a)


def check_submit_step(q: int, present: List[bool], broken: bool, shutdown: bool, gshut: bool, spawn_fails: bool = False) -> bool:
    """
    pre: 0 <= q <= 4 and len(present) == q
    post: _
    """
    log = Log()
    sl = FakeLock(log, "shutdown_lock")
    bpe = pe.BrokenProcessPool("x") if broken else None
    flags = FakeFlags(sl, shutdown=shutdown or broken, broken=bpe)
    pending = {i: _WorkItem(Future(), _fn, (i,), {}) for i in range(q) if present[i]}
    before = dict(pending)
    wq = queue.Queue()
    fake = NS(_flags=flags, _pending_work_items=pending, _work_ids=wq, _queue_count=q,
              _executor_manager_thread_wakeup=FakeWakeup(log, sl),
              _ensure_executor_running=lambda: _ensure(log, sl, spawn_fails))
    old = pe._global_shutdown
    pe._global_shutdown = gshut
    try:
        try:
            f = ProcessPoolExecutor.submit(fake, _fn, 7, k=8)
        except pe.BrokenProcessPool as e:
            return broken and e is bpe and pending == before and wq.empty() and fake._queue_count == q
        except ShutdownExecutorError:
            return (not broken) and shutdown and pending == before and wq.empty()
        except RuntimeError:
            return (not broken) and (not shutdown) and gshut and pending == before and wq.empty()
        except OSError:
            # the re-spawn of a missing worker failed inside submit(): whatever was registered keeps its id for
            # good - the counter is past every id that was ever put in the bookkeeping (ids are never re-used)
            if not spawn_fails or broken or shutdown or gshut or sl.held:
                return False
            ids = set(pending) | set(wq.queue)
            return all(i < fake._queue_count for i in ids) and all(pending.get(i) is wi for i, wi in before.items())
    finally:
        pe._global_shutdown = old
    if broken or shutdown or gshut or spawn_fails:
        return False
    if not isinstance(f, Future) or f._state != PENDING:
        return False
    # id = old queue count, enqueued exactly once, counter strictly increasing
    if fake._queue_count != q + 1 or wq.qsize() != 1 or wq.get() != q:
        return False
    w = pending.get(q)
    if w is None or w.future is not f or w.fn is not _fn or w.args != (7,) or w.kwargs != {"k": 8}:
        return False
    # nothing else touched
    for i, wi in before.items():
        if pending.get(i) is not wi:
            return False
    if len(pending) != len(before) + 1:
        return False
    # manager woken under the shutdown lock; pool topped up; lock released at the end
    return log.count("wakeup", True) == 1 and log.count("ensure", True) == 1 and not sl.held


def _ensure(log, sl, spawn_fails):
    log.add("ensure", sl.held)
    if spawn_fails:
        raise OSError(11, "Resource temporarily unavailable")


def check_dispatch_step_3(cancelled: List[bool], free: int, n_running: int) -> bool:
    """
    pre: len(cancelled) <= 3
    pre: 0 <= free <= 3 and 0 <= n_running <= 1
    post: _
    """
    return _dispatch_step(cancelled, free, n_running)


def check_dispatch_step_5(cancelled: List[bool], free: int, n_running: int) -> bool:
    """
    pre: len(cancelled) <= 5
    pre: 0 <= free <= 4 and 0 <= n_running <= 2
    post: _
    """
    return _dispatch_step(cancelled, free, n_running)


def _dispatch_step(cancelled, free, n_running):
    # queued ids are 3,4,5,... in FIFO order (the code never looks at the values)
    ids = [3 + k for k in range(len(cancelled))]
    log = Log()
    pending, futs = {}, {}
    wq = queue.Queue()
    for i, c in zip(ids, cancelled):
        f = Future()
        if c:
            f.cancel()
        futs[i] = f
        pending[i] = _WorkItem(f, _fn, (i,), {})
        wq.put(i)
    # ids already dispatched (distinct from the queued ones)
    running = [100 + k for k in range(n_running)]
    for r in running:
        pending[r] = _WorkItem(Future(), _fn, (r,), {})
    cq = FakeCallQueue(log, free)
    fake = NS(call_queue=cq, work_ids_queue=wq, pending_work_items=pending,
              running_work_items=running)
    run_ref = fake.running_work_items
    _ExecutorManagerThread.add_call_item_to_queue(fake)
    # reference: walk FIFO, skip cancelled (delete), put others while a slot is free
    exp_put, exp_deleted, k, slots = [], [], 0, free
    while k < len(ids):
        if slots <= 0:
            break
        i = ids[k]
        k += 1
        if cancelled[ids.index(i)]:
            exp_deleted.append(i)
        else:
            exp_put.append(i)
            slots -= 1
    rest = ids[k:]
    got_put = [ci.work_id for ci in cq.items]
    if got_put != exp_put:
        return False
    for ci in cq.items:  # the call item carries the work item's own fn/args
        if ci.fn is not _fn or ci.args != (ci.work_id,) or ci.kwargs != {}:
            return False
    if fake.running_work_items != [100 + j for j in range(n_running)] + exp_put:
        return False
    for i in exp_put:
        if futs[i]._state != RUNNING or i not in pending:
            return False
    for i in exp_deleted:
        if i in pending or not futs[i].cancelled():
            return False
    for i in rest:
        if i not in pending or futs[i]._state == RUNNING:
            return False
    left = []
    while not wq.empty():
        left.append(wq.get())
    return left == rest


def check_result_step_3(present: List[bool], dispatched: List[bool], wid: int, is_exc: bool, val: int) -> bool:
    """
    pre: len(present) == 3 and len(dispatched) == 3
    pre: 0 <= wid <= 3
    pre: all((not dispatched[i]) or present[i] for i in range(3))
    pre: wid >= 3 or (not present[wid]) or dispatched[wid]
    post: _
    """
    return _result_step(3, present, dispatched, wid, is_exc, val)


def check_result_step_4(present: List[bool], dispatched: List[bool], wid: int, is_exc: bool, val: int) -> bool:
    """
    pre: len(present) == 4 and len(dispatched) == 4
    pre: 0 <= wid <= 4
    pre: all((not dispatched[i]) or present[i] for i in range(4))
    pre: wid >= 4 or (not present[wid]) or dispatched[wid]
    post: _
    """
    return _result_step(4, present, dispatched, wid, is_exc, val)


def _result_step(N, present, dispatched, wid, is_exc, val):
    from .fakes import FakeFlags, FakeLock, FakeWakeup, Log
    pending, futs = {}, {}
    running = []
    log = Log()
    sl, mg = FakeLock(log, "shutdown_lock"), FakeLock(log, "mgmt")
    for i in range(N):
        if present[i]:
            f = Future()
            # user done-callbacks may call back into the executor: no internal lock may be held when they run
            f.add_done_callback(lambda fut: log.add("cb", sl.held or mg.held))
            futs[i] = f
            pending[i] = _WorkItem(f, _fn, (i,), {})
            if dispatched[i]:
                f.set_running_or_notify_cancel()
                running.append(i)
    before_running = list(running)
    exc = ValueError("boom") if is_exc else None
    item = _ResultItem(wid, exception=exc, result=None if is_exc else ("tag", val))
    fake = NS(pending_work_items=pending, running_work_items=running, shutdown_lock=sl, processes_management_lock=mg,
              thread_wakeup=FakeWakeup(log, sl), executor_flags=FakeFlags(sl), processes={})
    _ExecutorManagerThread.process_result_item(fake, item)
    if log.count("cb", True) or sl.held or mg.held:
        return False
    known = wid < N and present[wid]
    for i, f in futs.items():
        if i == wid:
            if not f.done():
                return False
            if is_exc:
                if f.exception() is not exc:
                    return False
            elif f.result() != ("tag", val):
                return False
        else:
            if f.done() or i not in pending:
                return False
    if known:
        if wid in pending:
            return False
        exp = list(before_running)
        exp.remove(wid)
        return running == exp
    return running == before_running and len(pending) == sum(present)
