"""C16: wrap_non_picklable_objects is behaviour-preserving (wrapper logic)."""
import pickle

from loky.cloudpickle_wrapper import (CallableObjectWrapper, CloudpickledObjectWrapper,
                                      wrap_non_picklable_objects)

from .c04_contain import _conc


def _closure(k):
    def inner(x):
        return x + k
    return inner


def _rec(n):
    return 1 if n <= 0 else n * _rec(n - 1)


class _Callable:
    tag = "callable-inst"

    def __init__(self, a=2):
        self.a = a

    def __call__(self, x):
        return self.a * x

    def method(self, y):
        return ("m", self.a, y)


class _Plain:
    tag = "plain-inst"

    def __init__(self, a=3, b=4):
        self.a, self.b = a, b

    def method(self, y):
        return ("p", self.a, self.b, y)


class _Unpicklable(_Plain):
    tag = "unpicklable"

    def __init__(self, a=3, b=4):
        super().__init__(a, b)
        self.fn = lambda z: z + self.a  # plain pickle fails on this attribute

    def method(self, y):
        return ("u", self.fn(y))


class _EmptyBag(_Plain):
    """A falsy object (an empty container): wrappers must test `is None`, never truthiness."""
    tag = "empty-bag"

    def __len__(self):
        return 0


class _FalseGate(_Callable):
    tag = "false-gate"

    def __bool__(self):
        return False


def _exemplar(i):
    return [lambda x: x * 7, _closure(5), _rec, _Callable(6), _Plain(1, 2), _Unpicklable(8, 9),
            _EmptyBag(5, 6), _FalseGate(3)][i]


ATTRS = ["a", "method", "tag", "_obj", "_keep_wrapper", "missing"]


def _same_behaviour(w, ref, x, attr):
    if callable(ref) != callable(w):
        return False
    if callable(ref) and w(x) != ref(x):
        return False
    if attr == "_obj":
        return True
    if attr == "_keep_wrapper":
        return True
    try:
        want = getattr(ref, attr)
    except AttributeError:
        try:
            getattr(w, attr)
        except AttributeError:
            return True
        return False
    got = getattr(w, attr)
    if attr == "method":
        return got(x) == want(x)
    return got == want


def check_object_wrapper(kind: int, keep: bool, trips: int, attr: int, x: int) -> bool:
    """
    pre: 0 <= kind <= 7 and 1 <= trips <= 3 and 0 <= attr <= 5
    pre: 0 <= x <= 3
    post: _
    """
    kind, trips, attr, x = _conc(kind, 7), _conc(trips, 3), ATTRS[_conc(attr, 5)], _conc(x, 3)
    ref = _exemplar(kind)
    w = wrap_non_picklable_objects(ref, keep_wrapper=bool(keep))
    if not isinstance(w, CloudpickledObjectWrapper) or isinstance(w, CallableObjectWrapper) != callable(ref):
        return False
    if w._obj is not ref or w._keep_wrapper != bool(keep):
        return False
    if not _same_behaviour(w, ref, x, attr):
        return False
    cur = w
    for _ in range(trips):
        cur = pickle.loads(pickle.dumps(cur))  # plain pickle, even when the object itself does not survive it
        if isinstance(cur, CloudpickledObjectWrapper) != bool(keep):
            return False  # arrives wrapped or unwrapped exactly as keep_wrapper says
        if not keep:
            return _same_behaviour(cur, ref, x, attr) and type(cur).__name__ == type(ref).__name__
        if cur._keep_wrapper is not True or not _same_behaviour(cur, ref, x, attr):
            return False
    return True


def check_rewrap(kind: int, inner_keep: bool, keep: bool, trips: int, x: int) -> bool:
    """
    pre: 0 <= kind <= 5 and 1 <= trips <= 2 and 0 <= x <= 2
    post: _
    """
    # wrapping something that is already a wrapper: the *new* call's keep_wrapper decides how it arrives
    kind, trips, x = _conc(kind, 5), _conc(trips, 2), _conc(x, 2)
    ref = _exemplar(kind)
    inner = wrap_non_picklable_objects(ref, keep_wrapper=bool(inner_keep))
    w = wrap_non_picklable_objects(inner, keep_wrapper=bool(keep))
    if not isinstance(w, CloudpickledObjectWrapper) or not _same_behaviour(w, ref, x, "method"):
        return False
    cur = w
    for _ in range(trips):
        cur = pickle.loads(pickle.dumps(cur))
        if isinstance(cur, CloudpickledObjectWrapper) != (bool(keep) or bool(inner_keep)):
            return False  # still wrapped iff some layer asked to keep the wrapper
        if not _same_behaviour(cur, ref, x, "method"):
            return False
        if not isinstance(cur, CloudpickledObjectWrapper):
            return True
    return True


def check_class_wrapper(kind: int, keep: bool, trips: int, a: int, b: int, x: int) -> bool:
    """
    pre: 0 <= kind <= 2 and 1 <= trips <= 2
    pre: 0 <= a <= 2 and 0 <= b <= 2 and 0 <= x <= 2
    post: _
    """
    kind, trips, a, b, x = _conc(kind, 2), _conc(trips, 2), _conc(a, 2), _conc(b, 2), _conc(x, 2)
    cls = [_Callable, _Plain, _Unpicklable][kind]
    W = wrap_non_picklable_objects(cls, keep_wrapper=bool(keep))
    args = (a,) if cls is _Callable else (a, b)
    inst, ref = W(*args), cls(*args)
    if W.__name__ != cls.__name__ or not isinstance(inst, CloudpickledObjectWrapper):
        return False
    if inst.a != ref.a or inst.method(x) != ref.method(x) or inst._keep_wrapper != bool(keep):
        return False
    # 'obey the same rule': an instance built by the wrapped class is callable iff instances of the class are, and
    # calls are forwarded - before any round trip, not only after one (finding F14)
    if callable(inst) != callable(ref) or (callable(ref) and inst(x) != ref(x)):
        return False
    cur = inst
    for _ in range(trips):
        cur = pickle.loads(pickle.dumps(cur))
        if isinstance(cur, CloudpickledObjectWrapper) != bool(keep):
            return False
        if cur.a != ref.a or cur.method(x) != ref.method(x) or cur.tag != ref.tag:
            return False
        if callable(ref) and cur(x) != ref(x):
            return False
        if not keep:
            return isinstance(cur, cls) or type(cur).__name__ == cls.__name__
    return True


def check_repickle_after_mutation(kind: int, keep: bool, x: int, delta: int) -> bool:
    """
    pre: 3 <= kind <= 5 and 0 <= x <= 2 and 1 <= delta <= 3
    post: _
    """
    # a wrapper is a live view of its object, not a snapshot: after the object changed (a forwarded call may mutate
    # it), reads through the wrapper and every *later* pickle of the same wrapper show the new state; copies made
    # earlier keep the state they were made with
    kind, x, delta = _conc(kind - 3, 2) + 3, _conc(x, 2), _conc(delta, 3)
    ref = _exemplar(kind)
    w = wrap_non_picklable_objects(ref, keep_wrapper=bool(keep))
    first = pickle.loads(pickle.dumps(w))
    old_a = ref.a
    ref.a = old_a + delta
    if not _same_behaviour(w, ref, x, "a") or not _same_behaviour(w, ref, x, "method"):
        return False
    second = pickle.loads(pickle.dumps(w))
    if not _same_behaviour(second, ref, x, "a") or not _same_behaviour(second, ref, x, "method"):
        return False
    if first.a != old_a or isinstance(second, CloudpickledObjectWrapper) != bool(keep):
        return False
    if keep:
        # the same on the receiving side: a wrapper that arrived still wrapped is a live view too - after its
        # object changed there, sending it on carries the new state, not the bytes it arrived as (seed r7_C16)
        first._obj.a = old_a + 10 * delta
        onward = pickle.loads(pickle.dumps(first))
        if not isinstance(onward, CloudpickledObjectWrapper) or onward.a != old_a + 10 * delta:
            return False
        if onward.method(x) != first._obj.method(x):
            return False
    return True


def _toplevel(x):
    return x - 11


def _main_fn(x):
    return x + 100


_main_fn.__module__ = "__main__"  # what an interactively defined function looks like


def _auto_exemplar(i, p, q):
    from functools import partial
    base = [lambda x: x * 7, _closure(5), _main_fn, _toplevel, _Callable(6), len][i % 6]
    if i < 6:
        return base, None
    # partial objects: func, positional and keyword arguments are inspected recursively
    two = [lambda f, g, x, h=None: (f(x), g(x), h(x) if h else None)][0]
    f = [lambda x: x + p, _closure(p), _toplevel][i % 3]
    return partial(two, f, _closure(q), h=(lambda x: x * q)), (f, q)


def check_wrap_when_needed(kind: int, p: int, q: int, x: int, trips: int) -> bool:
    """
    pre: 0 <= kind <= 8 and 0 <= p <= 2 and 0 <= q <= 2 and 0 <= x <= 3 and 1 <= trips <= 2
    post: _
    """
    # the parameters are concretised by branching and the body runs outside the tracer: cloudpickle's by-value
    # reconstruction of functions is C-level work that CrossHair's interception distorts (measured: a partial of
    # lambdas compared unequal under the tracer and equal concretely).  Finite domain, every point visited.
    kind, p, q, x, trips = _conc(kind, 8), _conc(p, 2), _conc(q, 2), _conc(x, 3), _conc(trips, 2)
    try:
        from crosshair.tracers import NoTracing, is_tracing
    except ImportError:
        return _wrap_when_needed_body(kind, p, q, x, trips)
    if is_tracing():
        with NoTracing():
            return _wrap_when_needed_body(kind, p, q, x, trips)
    return _wrap_when_needed_body(kind, p, q, x, trips)


def _wrap_when_needed_body(kind, p, q, x, trips):
    from functools import partial
    from loky.cloudpickle_wrapper import _wrap_objects_when_needed
    ref, parts = _auto_exemplar(kind, p, q)
    got = _wrap_objects_when_needed(ref)
    arg = [x] if kind != 5 else [[0] * x]
    if callable(got) != callable(ref) or got(*arg) != ref(*arg):
        return False
    needs = kind in (0, 1, 2)  # lambda, nested function, defined in __main__
    if parts is None:
        if needs:
            # wrapped so that it travels by value and arrives *unwrapped*; one wrapper per object
            if not isinstance(got, CallableObjectWrapper) or got._obj is not ref or got._keep_wrapper is not False:
                return False
            if _wrap_objects_when_needed(ref) is not got:
                return False
        elif got is not ref:
            return False  # importable objects are left alone
    else:
        if not isinstance(got, partial) or isinstance(got, CloudpickledObjectWrapper):
            return False
        if len(got.args) != len(ref.args) or set(got.keywords) != set(ref.keywords):
            return False
        inner_needs = parts[0] is not _toplevel
        if isinstance(got.args[0], CloudpickledObjectWrapper) != inner_needs:
            return False
        if not all(isinstance(v, CloudpickledObjectWrapper) for v in (got.func, got.args[1], got.keywords["h"])):
            return False
    cur = got
    for _ in range(trips):
        # plain pickle must now work, and nothing arrives wrapped; what arrived is prepared again before it is re-sent
        cur = pickle.loads(pickle.dumps(cur if cur is got else _wrap_objects_when_needed(cur)))
        if isinstance(cur, CloudpickledObjectWrapper) or cur(*arg) != ref(*arg):
            return False
        if isinstance(cur, partial) and any(isinstance(v, CloudpickledObjectWrapper)
                                            for v in (cur.func, *cur.args, *cur.keywords.values())):
            return False
    return True
