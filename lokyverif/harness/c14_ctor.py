"""C14 (E-CH part): loky's primitive classes are thin, correctly parameterised wrappers over
the C SemLock (which is trusted), also after pickling to a child."""
import loky.backend.context as cx
import loky.backend.synchronize as sy

from .c04_contain import _conc
from .fakes import NS, Log


class _Rec:
    def __init__(self, log, kind, value, maxvalue, name, unlink_now):
        self.kind, self.value, self.maxvalue, self.name, self.handle = kind, value, maxvalue, name, 99
        log.add("semlock", kind, value, maxvalue, unlink_now)

    def acquire(self, *a):
        return True

    def release(self):
        pass


def _patched(log):
    saved = (sy._SemLock, sy.resource_tracker, sy.util, sy.assert_spawning, sy.SemLock._rand)
    sy.SemLock._rand = iter("n%d" % i for i in range(1000))  # deterministic stand-in for the random names

    class R(_Rec):
        def __init__(self, *a):
            _Rec.__init__(self, log, *a)

        @staticmethod
        def _rebuild(handle, kind, maxvalue, name):
            log.add("rebuild", handle, kind, maxvalue, name)
            return NS(handle=handle, kind=kind, maxvalue=maxvalue, name=name, acquire=lambda *a: True,
                      release=lambda: None)
    sy._SemLock = R
    sy.resource_tracker = NS(register=lambda *a: None, unregister=lambda *a: None)
    sy.util = NS(debug=lambda *a: None, register_after_fork=lambda *a: None, Finalize=lambda *a, **k: None)
    sy.assert_spawning = lambda o: None
    return saved


def check_constructors(kind: int, v: int) -> bool:
    """
    pre: 0 <= kind <= 3 and 0 <= v <= 6
    post: _
    """
    kind = _conc(kind, 3)
    log = Log()
    saved = _patched(log)
    try:
        if kind == 0:
            o, want = sy.Lock(), (sy.SEMAPHORE, 1, 1)
        elif kind == 1:
            o, want = sy.RLock(), (sy.RECURSIVE_MUTEX, 1, 1)
        elif kind == 2:
            o, want = sy.Semaphore(v), (sy.SEMAPHORE, v, sy.SEM_VALUE_MAX)
        else:
            o, want = sy.BoundedSemaphore(v), (sy.SEMAPHORE, v, v)
        first = log[0]
        if first[:4] != ("semlock",) + want or first[4] is not False:
            return False
        # acquire/release/context manager go straight to the C object
        if o.acquire != o._semlock.acquire or o.release != o._semlock.release:
            return False
        # pickled copy: same handle, kind, maxvalue, name
        st = o.__getstate__()
        c = type(o).__new__(type(o))
        c.__setstate__(st)
        sl = c._semlock
        return (st == (99, want[0], want[2], o._semlock.name) and
                (sl.handle, sl.kind, sl.maxvalue, sl.name) == st and c.acquire == sl.acquire)
    finally:
        sy._SemLock, sy.resource_tracker, sy.util, sy.assert_spawning, sy.SemLock._rand = saved


def check_context_factories(kind: int, v: int) -> bool:
    """
    pre: 0 <= kind <= 5 and 1 <= v <= 4
    post: _
    """
    kind = _conc(kind, 5)
    log = Log()
    saved = _patched(log)
    try:
        ctx = cx.LokyContext()
        if kind == 0:
            return type(ctx.Lock()) is sy.Lock
        if kind == 1:
            return type(ctx.RLock()) is sy.RLock
        if kind == 2:
            s = ctx.Semaphore(v)
            return type(s) is sy.Semaphore and log[0][2] == v
        if kind == 3:
            s = ctx.BoundedSemaphore(v)
            return type(s) is sy.BoundedSemaphore and log[0][2:4] == (v, v)
        if kind == 4:
            lk = sy.Lock()
            c = ctx.Condition(lk)
            d = ctx.Condition()
            return type(c) is sy.Condition and c._lock is lk and type(d._lock) is sy.RLock and \
                c.acquire == lk.acquire and c.release == lk.release
        e = ctx.Event()
        return type(e) is sy.Event and type(e._cond) is sy.Condition and type(e._cond._lock) is sy.Lock
    finally:
        sy._SemLock, sy.resource_tracker, sy.util, sy.assert_spawning, sy.SemLock._rand = saved


class _TooMany(Exception):
    pass


def check_wait_for(true_at: int, has_timeout: bool, timeout: int, step: int) -> bool:
    """
    pre: 0 <= true_at <= 4 and 1 <= timeout <= 6 and 1 <= step <= 3
    post: _
    """
    # the real Condition.wait_for over a scripted predicate (true from its `true_at`-th evaluation on) and a clock
    # that advances by `step` during every wait(): it returns the predicate's last value, true as soon as the
    # predicate holds, false only once the timeout has expired; every wait gets the remaining time (None without
    # a timeout) and no wait is issued with a non-positive remaining time
    true_at, timeout, step = _conc(true_at, 4), _conc(timeout, 6), _conc(step, 3)
    log = Log()
    now = [100]
    evals = [0]

    def predicate():
        evals[0] += 1
        if evals[0] > 12:
            raise _TooMany()
        return evals[0] > true_at

    def wait(t=None):
        log.add("wait", t)
        now[0] += step

    fake = NS(wait=wait)
    saved = sy._time
    sy._time = lambda: now[0]
    try:
        try:
            r = sy.Condition.wait_for(fake, predicate, timeout if has_timeout else None)
        except _TooMany:
            return False
    finally:
        sy._time = saved
    waits = [e[1] for e in log]
    if not has_timeout:
        return r is True and waits == [None] * true_at and evals[0] == true_at + 1
    # with a timeout: waits happen at clock 100, 100+step, ... while remaining > 0 and the predicate is false
    want, t, k = [], 100, 1
    res = true_at < 1
    while not res:
        remaining = 100 + timeout - t
        if remaining <= 0:
            break
        want.append(remaining)
        t += step
        k += 1
        res = k > true_at
    return waits == want and r is res
