"""C10: the real `_ReusablePoolExecutor._resize` against fake internals. The polling
loops are driven by a `time.sleep` stub that lets the environment make progress
(one worker that received a sentinel leaves per sleep); if no progress is possible
and the loop keeps sleeping, the stub raises Livelock."""
from typing import List

import loky.reusable_executor as rx
from loky.reusable_executor import _ReusablePoolExecutor

from .c04_contain import _conc
from .fakes import NS, FakeCallQueue, FakeFlags, FakeLock, FakeProcess, FakeWakeup, Log


class Livelock(Exception):
    pass


class WaitAborted(Exception):
    pass


def _setup(log, old, new, alive, started, new_dies=False, broken_during=False, wait_raises=False):
    mgmt = FakeLock(log, "mgmt")
    rl = FakeLock(log, "submit_resize")
    procs = {10 + i: FakeProcess(log, 10 + i, alive=alive[i]) for i in range(len(alive))}
    cq = FakeCallQueue(log, 9)
    flags = FakeFlags(FakeLock(log, "sl"))
    fake = NS(_submit_resize_lock=rl, _max_workers=old, _executor_manager_thread=(object() if started else None),
              _processes_management_lock=mgmt, _processes=procs, _call_queue=cq, _flags=flags,
              _pending_work_items={}, executor_id=3)
    fake._executor_manager_thread_wakeup = FakeWakeup(log, flags.shutdown_lock)
    nxt = [50]
    spawned = []

    def adjust():
        log.add("adjust", fake._max_workers)
        while len(procs) < fake._max_workers:
            p = FakeProcess(log, nxt[0], alive=not new_dies)
            nxt[0] += 1
            procs[p.pid] = p
            spawned.append((p, len(log)))

    fake._adjust_process_count = adjust
    def wait_jobs():
        log.add("wait-jobs", rl.held, mgmt.held)
        if wait_raises:
            # "Trying to resize an executor with running jobs" is a UserWarning (an exception under -W error);
            # the polling loop can also be interrupted
            raise WaitAborted()
    fake._wait_job_completion = wait_jobs
    idle = [0]

    def sleep(dt):
        if mgmt.held:
            log.add("waiting-with-mgmt-lock")
        # environment progress: a worker that can take a sentinel takes it and leaves through the manager
        sentinels = [x for x in cq.items if x is None]
        live = [p for p in procs.values() if p.alive]
        if sentinels and live:
            cq.items.remove(None)
            p = live[-1]
            p.alive = False
            del procs[p.pid]
            idle[0] = 0
            return
        # the manager reaps workers that died on their own -- those it watches: a worker spawned
        # after the manager last looked at the process table is only seen after a wakeup
        def watched(p):
            for q, at in spawned:
                if q is p:
                    return any(e[0] == "wakeup" for e in log[at:])
            return True
        dead = [p for p in procs.values() if not p.alive and watched(p)]
        if dead:
            if broken_during:
                flags.broken = RuntimeError("broken")
                procs.clear()
            else:
                del procs[dead[0].pid]
            idle[0] = 0
            return
        idle[0] += 1
        if idle[0] > 3:
            raise Livelock()

    return fake, procs, cq, mgmt, rl, sleep


def check_resize(old: int, new: int, alive: List[bool], started: bool) -> bool:
    """
    pre: 1 <= old <= 3 and 1 <= new <= 3 and len(alive) <= old and all(alive)
    post: _
    """
    old, new = _conc(old, 3), _conc(new, 3)
    log = Log()
    fake, procs, cq, mgmt, rl, sleep = _setup(log, old, new, list(alive), started)
    before = dict(procs)
    n_alive = sum(1 for a in alive if a)
    saved = rx.time
    rx.time = NS(sleep=sleep)
    try:
        _ReusablePoolExecutor._resize(fake, new)
    finally:
        rx.time = saved
    if rl.held or mgmt.held:
        return False
    if new == old:
        return len([e for e in log if e[0] in ("cq-put", "adjust")]) == 0 and procs == before
    if not started:
        return fake._max_workers == new and not [e for e in log if e[0] in ("cq-put", "adjust", "wait-jobs")]
    # waits for the jobs first, under the submit/resize lock
    if log.count("wait-jobs", True) != 1:
        return False
    # ... and never while holding the processes management lock: the manager thread needs that lock to handle a
    # worker that leaves (idle time-out, memory-leak exit) while the jobs complete or while _resize polls
    if log.count("wait-jobs", True, False) != 1 or log.count("waiting-with-mgmt-lock"):
        return False
    sent = [e for e in log if e == ("cq-put", None)]
    if len(sent) != max(0, n_alive - new):
        return False  # exactly one sentinel per surplus live worker
    # sentinels are posted, and the new size published, while the management lock is held
    i_acq = log.index(("acquire", "mgmt"))
    i_rel = log.index(("release", "mgmt"))
    for i, e in enumerate(log):
        if e == ("cq-put", None) and not (i_acq < i < i_rel):
            return False
    if fake._max_workers != new:
        return False
    # returns with the requested number of live workers; survivors are kept, not restarted
    live = [p for p in procs.values() if p.alive]
    if len(procs) != new or len(live) != new:
        return False
    kept = [p for p in before.values() if p.alive and procs.get(p.pid) is p]
    return len(kept) == min(n_alive, new)


def check_resize_terminates(old: int, new: int, n_dead: int, new_dies: bool, broken_during: bool) -> bool:
    """
    pre: 1 <= old <= 3 and 1 <= new <= 3 and old != new and 0 <= n_dead <= old
    post: _
    """
    old, new, n_dead = _conc(old, 3), _conc(new, 3), _conc(n_dead, 3)
    log = Log()
    alive = [i >= n_dead for i in range(old)]
    fake, procs, cq, mgmt, rl, sleep = _setup(log, old, new, alive, True, new_dies=new_dies,
                                              broken_during=broken_during)
    saved = rx.time
    rx.time = NS(sleep=sleep)
    try:
        try:
            _ReusablePoolExecutor._resize(fake, new)
        except Livelock:
            return False  # the call spins for ever although nothing can change any more
    finally:
        rx.time = saved
    if log.count("wait-jobs", True, False) != 1 or log.count("waiting-with-mgmt-lock"):
        return False  # waits while holding the management lock: the manager thread cannot handle a departure
    return not rl.held and not mgmt.held


def check_wait_job_completion(n_pending: int, done_per_poll: int) -> bool:
    """
    pre: 0 <= n_pending <= 4 and 1 <= done_per_poll <= 2
    post: _
    """
    # the real _wait_job_completion: returns exactly when no work item is pending any more (every task submitted
    # before the resize completes first), warns once iff it had to wait, and only polls - no lock is taken
    n_pending, done_per_poll = _conc(n_pending, 4), _conc(done_per_poll, 2)
    log = Log()
    pending = {i: object() for i in range(n_pending)}
    polls = [0]

    def sleep(dt):
        polls[0] += 1
        if polls[0] > 10:
            raise Livelock()
        for _ in range(done_per_poll):
            if pending:
                pending.pop(next(iter(pending)))

    fake = NS(_pending_work_items=pending, executor_id=3)
    saved = (rx.time, rx.warnings, rx.mp)
    rx.time = NS(sleep=sleep)
    rx.warnings = NS(warn=lambda *a, **k: log.add("warn", a[1] if len(a) > 1 else k.get("category")))
    rx.mp = NS(util=NS(debug=lambda *a: None))
    try:
        try:
            _ReusablePoolExecutor._wait_job_completion(fake)
        except Livelock:
            return False
    finally:
        rx.time, rx.warnings, rx.mp = saved
    if pending:
        return False  # returned while submitted work was still pending
    want_polls = (n_pending + done_per_poll - 1) // done_per_poll
    return polls[0] == want_polls and log.count("warn") == (1 if n_pending else 0) and \
        (not n_pending or log[0][1] is UserWarning)


def check_resize_aborted(old: int, new: int, n_alive: int) -> bool:
    """
    pre: 1 <= old <= 3 and 1 <= new <= 3 and old != new and 0 <= n_alive <= old
    post: _
    """
    # the wait for running jobs is aborted by an exception: the resize has not happened, and nothing may pretend
    # it has - same nominal size, no sentinel posted, no worker spawned - so that repeating the request really
    # resizes (C09: "has the requested number of workers"; C08: never more workers than max_workers)
    old, new, n_alive = _conc(old, 3), _conc(new, 3), _conc(n_alive, 3)
    log = Log()
    fake, procs, cq, mgmt, rl, sleep = _setup(log, old, new, [True] * n_alive, True, wait_raises=True)
    before = dict(procs)
    saved = rx.time
    rx.time = NS(sleep=sleep)
    try:
        try:
            _ReusablePoolExecutor._resize(fake, new)
            return False  # the abort of the wait must reach the caller
        except WaitAborted:
            pass
        except Livelock:
            return False
    finally:
        rx.time = saved
    return (fake._max_workers == old and procs == before and not rl.held and not mgmt.held
            and not [e for e in log if e[0] in ("cq-put", "adjust")])
