"""C06: kill_process_tree reaches every descendant, deepest first (real
_posix_recursive_kill / _kill_process_tree_without_psutil / _with_psutil over a
symbolic process tree)."""
import subprocess
from typing import List

import loky.backend.utils as lu

from .c04_contain import _conc
from .fakes import NS, FakeProcess, Log

ROOT = 100


def _tree(parents):
    # node i+1 (pid ROOT+i+1) has parent parents[i] in 0..i  (0 = the worker itself)
    kids = {ROOT + i: [] for i in range(len(parents) + 1)}
    for i, p in enumerate(parents):
        kids[ROOT + p].append(ROOT + i + 1)
    return kids


def _check_order(log, kids, gone=()):
    killed = [e[1] for e in log if e[0] == "oskill"]
    if sorted(killed) != sorted(kids):  # every node exactly once
        return False
    pos = {pid: i for i, pid in enumerate(killed)}
    for p, cs in kids.items():
        for c in cs:
            if pos[c] > pos[p]:  # each child before its parent
                return False
    return True


def check_posix_recursive_kill(parents: List[int], vanished: int, helper_thread: int = 0) -> bool:
    """
    pre: len(parents) <= 4 and all(0 <= parents[i] <= i for i in range(len(parents)))
    pre: -1 <= vanished <= 4 and 0 <= helper_thread <= 15
    post: _
    """
    parents = [_conc(p, 4) for p in parents]
    vanished = _conc(vanished + 1, 5) - 1
    helper_thread = _conc(helper_thread, 15)
    kids = _tree(parents)
    log = Log()
    # kernel view offered besides pgrep: /proc/<pid>/task/<tid>/children lists the children forked by *that thread*
    # (bit i of helper_thread set: process ROOT+1+i was forked by a helper thread, tid = pid + 1000, of its parent)
    by_helper = {ROOT + 1 + i for i in range(len(parents)) if (helper_thread >> i) & 1}

    def fake_open(path, *a, **k):
        import io
        parts = str(path).split("/")
        if len(parts) == 6 and parts[1] == "proc" and parts[3] == "task" and parts[5] == "children":
            pid, tid = int(parts[2]), int(parts[4])
            if pid not in kids or tid not in (pid, pid + 1000):
                raise FileNotFoundError(path)
            cs = [c for c in kids[pid] if (c in by_helper) == (tid != pid)]
            return io.StringIO("".join(f"{c} " for c in cs))
        raise FileNotFoundError(path)

    def listdir(path):
        parts = str(path).split("/")
        if len(parts) == 4 and parts[1] == "proc" and parts[3] == "task" and int(parts[2]) in kids:
            return [parts[2], str(int(parts[2]) + 1000)]
        raise FileNotFoundError(path)

    def check_output(cmd, stderr=None, text=None):
        if cmd[:2] != ["pgrep", "-P"]:
            raise RuntimeError("harness: unexpected command")
        cs = kids[int(cmd[2])]
        if not cs:
            raise subprocess.CalledProcessError(1, cmd)
        return "".join(f"{c}\n" for c in cs)

    def kill(pid, sig):
        log.add("oskill", pid)
        if pid == ROOT + vanished:
            raise ProcessLookupError(3, "No such process")  # ESRCH tolerated

    import errno
    import signal
    import os.path as _osp
    saved = (lu.subprocess, lu.os, lu.__dict__.get("open"))
    lu.subprocess = NS(check_output=check_output, CalledProcessError=subprocess.CalledProcessError)
    lu.os = NS(kill=kill, listdir=listdir, path=_osp, getpid=lambda: 1)
    lu.open = fake_open
    proc = FakeProcess(log, ROOT)
    try:
        lu._kill_process_tree_without_psutil(proc)
    finally:
        lu.subprocess, lu.os = saved[:2]
        if saved[2] is None:
            del lu.open
        else:
            lu.open = saved[2]
    return _check_order(log, kids) and proc.joined == 1 and proc.killed == 0


class _NoSuch(Exception):
    pass


def check_psutil_kill(parents: List[int], vanished: int, root_gone: bool) -> bool:
    """
    pre: len(parents) <= 4 and all(0 <= parents[i] <= i for i in range(len(parents)))
    pre: -1 <= vanished <= 4
    post: _
    """
    parents = [_conc(p, 4) for p in parents]
    vanished = _conc(vanished + 1, 5) - 1
    kids = _tree(parents)
    log = Log()

    class P:
        def __init__(self, pid):
            if root_gone and pid == ROOT:
                raise _NoSuch()
            self.pid = pid

        def children(self, recursive=False):
            # documented order: a parent is listed before its descendants
            out, todo = [], list(kids[self.pid])
            while todo:
                c = todo.pop(0)
                out.append(P(c))
                todo += kids[c]
            return out

        def kill(self):
            log.add("oskill", self.pid)
            if self.pid == ROOT + vanished:
                raise _NoSuch()

    def wait_procs(procs, timeout=None, callback=None):
        # psutil.wait_procs reaps what it waits for (os.waitpid): recorded, the worker itself must be
        # reaped by process.join() only, or its exit status is lost to multiprocessing (C20)
        for q in procs:
            log.add("psutil-wait", q.pid)
        return list(procs), []

    saved = lu.psutil
    lu.psutil = NS(Process=P, NoSuchProcess=_NoSuch, wait_procs=wait_procs)
    proc = FakeProcess(log, ROOT)
    try:
        lu.kill_process_tree(proc)
    finally:
        lu.psutil = saved
    if root_gone:
        return log.count("oskill") == 0
    return _check_order(log, kids) and proc.joined == 1 and log.count("psutil-wait", ROOT) == 0
