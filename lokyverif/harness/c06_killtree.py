"""C06: kill_process_tree reaches every descendant, deepest first (real
_posix_recursive_kill / _kill_process_tree_without_psutil / _with_psutil over a
symbolic process tree)."""
import subprocess
from typing import List

import loky.backend.utils as lu

from .c04_contain import _conc
from .fakes import NS, FakeProcess, Log

ROOT = 100


def _tree(parents):
    # node i+1 (pid ROOT+i+1) has parent parents[i] in 0..i  (0 = the worker itself)
    kids = {ROOT + i: [] for i in range(len(parents) + 1)}
    for i, p in enumerate(parents):
        kids[ROOT + p].append(ROOT + i + 1)
    return kids


def _check_order(log, kids, gone=()):
    killed = [e[1] for e in log if e[0] == "oskill"]
    if sorted(killed) != sorted(kids):  # every node exactly once
        return False
    pos = {pid: i for i, pid in enumerate(killed)}
    for p, cs in kids.items():
        for c in cs:
            if pos[c] > pos[p]:  # each child before its parent
                return False
    return True


def check_posix_recursive_kill(parents: List[int], vanished: int) -> bool:
    """
    pre: len(parents) <= 4 and all(0 <= parents[i] <= i for i in range(len(parents)))
    pre: -1 <= vanished <= 4
    post: _
    """
    parents = [_conc(p, 4) for p in parents]
    vanished = _conc(vanished + 1, 5) - 1
    kids = _tree(parents)
    log = Log()

    def check_output(cmd, stderr=None, text=None):
        if cmd[:2] != ["pgrep", "-P"]:
            raise RuntimeError("harness: unexpected command")
        cs = kids[int(cmd[2])]
        if not cs:
            raise subprocess.CalledProcessError(1, cmd)
        return "".join(f"{c}\n" for c in cs)

    def kill(pid, sig):
        log.add("oskill", pid)
        if pid == ROOT + vanished:
            raise ProcessLookupError(3, "No such process")  # ESRCH tolerated

    import errno
    import signal
    saved = (lu.subprocess, lu.os)
    lu.subprocess = NS(check_output=check_output, CalledProcessError=subprocess.CalledProcessError)
    lu.os = NS(kill=kill)
    proc = FakeProcess(log, ROOT)
    try:
        lu._kill_process_tree_without_psutil(proc)
    finally:
        lu.subprocess, lu.os = saved
    return _check_order(log, kids) and proc.joined == 1 and proc.killed == 0


class _NoSuch(Exception):
    pass


def check_psutil_kill(parents: List[int], vanished: int, root_gone: bool) -> bool:
    """
    pre: len(parents) <= 4 and all(0 <= parents[i] <= i for i in range(len(parents)))
    pre: -1 <= vanished <= 4
    post: _
    """
    parents = [_conc(p, 4) for p in parents]
    vanished = _conc(vanished + 1, 5) - 1
    kids = _tree(parents)
    log = Log()

    class P:
        def __init__(self, pid):
            if root_gone and pid == ROOT:
                raise _NoSuch()
            self.pid = pid

        def children(self, recursive=False):
            # documented order: a parent is listed before its descendants
            out, todo = [], list(kids[self.pid])
            while todo:
                c = todo.pop(0)
                out.append(P(c))
                todo += kids[c]
            return out

        def kill(self):
            log.add("oskill", self.pid)
            if self.pid == ROOT + vanished:
                raise _NoSuch()

    def wait_procs(procs, timeout=None, callback=None):
        # psutil.wait_procs reaps what it waits for (os.waitpid): recorded, the worker itself must be
        # reaped by process.join() only, or its exit status is lost to multiprocessing (C20)
        for q in procs:
            log.add("psutil-wait", q.pid)
        return list(procs), []

    saved = lu.psutil
    lu.psutil = NS(Process=P, NoSuchProcess=_NoSuch, wait_procs=wait_procs)
    proc = FakeProcess(log, ROOT)
    try:
        lu.kill_process_tree(proc)
    finally:
        lu.psutil = saved
    if root_gone:
        return log.count("oskill") == 0
    return _check_order(log, kids) and proc.joined == 1 and log.count("psutil-wait", ROOT) == 0
