"""C03 (map clause): map(fn, *iterables, chunksize=c) == list(map(fn, *iterables)).

Real functions under symbolic inputs: `_get_chunks`, `_process_chunk`,
`_chain_from_iterable_of_lists` composed exactly the way
`ProcessPoolExecutor.map` composes them (results of `super().map` are the
per-chunk lists in submission order).  `fn` is an injective pair builder, so
equality of outputs implies every element went through `fn` exactly once with
its own arguments, in order.
"""
from typing import List

from loky.process_executor import (_chain_from_iterable_of_lists, _get_chunks,
                                   _process_chunk)


def _fn(a, b):
    return (a, b)


def check_map_two_iterables(xs: List[int], ys: List[int], c: int) -> bool:
    """
    pre: len(xs) <= 4 and len(ys) <= 4
    pre: 1 <= c <= 5
    post: _
    """
    chunks = list(_get_chunks(c, xs, ys))
    # every chunk is non-empty and at most c long
    for ch in chunks:
        if not (1 <= len(ch) <= c):
            return False
    # only the last chunk may be short
    for ch in chunks[:-1]:
        if len(ch) != c:
            return False
    results = [_process_chunk(_fn, ch) for ch in chunks]
    got = list(_chain_from_iterable_of_lists(results))
    return got == list(map(_fn, xs, ys))


def check_map_one_iterable(xs: List[int], c: int) -> bool:
    """
    pre: len(xs) <= 6
    pre: 1 <= c <= 7
    post: _
    """
    chunks = list(_get_chunks(c, xs))
    results = [_process_chunk(lambda a: (a,), ch) for ch in chunks]
    got = list(_chain_from_iterable_of_lists(results))
    n_expected = (len(xs) + c - 1) // c
    return got == [(a,) for a in xs] and len(chunks) == n_expected
