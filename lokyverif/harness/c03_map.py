"""C03 (map clause): map(fn, *iterables, chunksize=c) == list(map(fn, *iterables)).

Real functions under symbolic inputs: `_get_chunks`, `_process_chunk`,
`_chain_from_iterable_of_lists` composed exactly the way
`ProcessPoolExecutor.map` composes them (results of `super().map` are the
per-chunk lists in submission order).  `fn` is an injective pair builder, so
equality of outputs implies every element went through `fn` exactly once with
its own arguments, in order.
"""
from typing import List

from loky.process_executor import (_chain_from_iterable_of_lists, _get_chunks,
                                   _process_chunk)


def _fn(a, b):
    return (a, b)


def check_map_two_iterables(xs: List[int], ys: List[int], c: int) -> bool:
    """
    pre: len(xs) <= 4 and len(ys) <= 4
    pre: 1 <= c <= 5
    post: _
    """
    chunks = list(_get_chunks(c, xs, ys))
    # every chunk is non-empty and at most c long
    for ch in chunks:
        if not (1 <= len(ch) <= c):
            return False
    # only the last chunk may be short
    for ch in chunks[:-1]:
        if len(ch) != c:
            return False
    results = [_process_chunk(_fn, ch) for ch in chunks]
    got = list(_chain_from_iterable_of_lists(results))
    return got == list(map(_fn, xs, ys))


def check_map_shared_iterator(n: int, c: int, k: int) -> bool:
    """
    pre: 0 <= n <= 7 and 1 <= c <= 8 and 2 <= k <= 3
    post: _
    """
    # the same one-shot iterator passed k times: builtin map()/zip() pull one item from each argument in turn,
    # so the argument tuples are consecutive runs of the stream; chunking must not change how they are formed
    n, c, k = _small(n, 7), _small(c, 8), _small(k, 3)
    it = iter(range(n))
    chunks = list(_get_chunks(c, *([it] * k)))
    results = [_process_chunk(_tup, ch) for ch in chunks]
    got = list(_chain_from_iterable_of_lists(results))
    ref = iter(range(n))
    return got == list(map(_tup, *([ref] * k)))


def _tup(*a):
    return a


def _small(o, hi):
    for v in range(hi + 1):
        if o == v:
            return v
    return hi


def check_map_one_iterable(xs: List[int], c: int) -> bool:
    """
    pre: len(xs) <= 6
    pre: 1 <= c <= 7
    post: _
    """
    chunks = list(_get_chunks(c, xs))
    results = [_process_chunk(lambda a: (a,), ch) for ch in chunks]
    got = list(_chain_from_iterable_of_lists(results))
    n_expected = (len(xs) + c - 1) // c
    return got == [(a,) for a in xs] and len(chunks) == n_expected


class _SyncFuture:
    def __init__(self, v):
        self.v = v

    def result(self, timeout=None):
        return self.v

    def cancel(self):
        return False


def _untraced(fn):
    """Run fn() outside CrossHair's tracer (zero-argument super() inside the real map() does not survive
    it: 'Cell is empty'); only concrete values may flow in."""
    try:
        from crosshair.tracers import NoTracing, is_tracing
    except ImportError:
        return fn()
    if not is_tracing():
        return fn()
    with NoTracing():
        return fn()


def check_real_map(nx: int, ny: int, c: int, mw: int) -> bool:
    """
    pre: 0 <= nx <= 5 and 0 <= ny <= 5
    pre: 1 <= c <= 6 and 1 <= mw <= 7
    post: _
    """
    from .c04_contain import _conc
    nx, ny, c, mw = _conc(nx, 5), _conc(ny, 5), _conc(c, 6), _conc(mw, 7)
    xs, ys = list(range(nx)), [10 + i for i in range(ny)]
    return _untraced(lambda: _real_map(xs, ys, c, mw))


def _real_map(xs, ys, c, mw):
    # the real ProcessPoolExecutor.map (and the concurrent.futures Executor.map it delegates to) on an
    # executor object whose submit() runs the call synchronously: whatever map() does with chunksize,
    # the iterables and max_workers, the outcome must be list(map(fn, xs, ys)) in order
    from loky.process_executor import ProcessPoolExecutor
    ex = ProcessPoolExecutor.__new__(ProcessPoolExecutor)
    ex._max_workers = mw
    submitted = []

    def submit(fn, *args, **kwargs):
        submitted.append(args)
        return _SyncFuture(fn(*args, **kwargs))
    ex.submit = submit
    got = list(ex.map(_fn, xs, ys, chunksize=c))
    if got != list(map(_fn, xs, ys)):
        return False
    n = min(len(xs), len(ys))
    return len(submitted) == (n + c - 1) // c  # one task per chunk of (at most) chunksize items


def check_real_map_bad_chunksize(n: int, c: int) -> bool:
    """
    pre: 0 <= n <= 2 and -2 <= c <= 0
    post: _
    """
    from .c04_contain import _conc
    n, c = _conc(n, 2), _conc(c + 2, 2) - 2
    xs = list(range(n))
    return _untraced(lambda: _bad_chunksize(xs, c))


def _bad_chunksize(xs, c):
    from loky.process_executor import ProcessPoolExecutor
    ex = ProcessPoolExecutor.__new__(ProcessPoolExecutor)
    ex._max_workers = 2
    ex.submit = lambda fn, *a, **k: _SyncFuture(fn(*a, **k))
    try:
        list(ex.map(_fn, xs, xs, chunksize=c))
    except ValueError:
        return True
    return False


_EXC_VALUES = [ValueError("returned, not raised"), StopIteration(), None, 0]


def _ident(x):
    return x


def check_map_odd_values(kinds: List[int], c: int) -> bool:
    """
    pre: len(kinds) <= 3 and all(0 <= k <= 4 for k in kinds) and 1 <= c <= 4
    post: _
    """
    # results are values, whatever they are: exception *instances* returned by fn (the safe-call idiom), None,
    # falsy values and empty containers come back in order, as themselves, for every chunk size
    c = _small(c, 4)
    xs = [(_EXC_VALUES[k] if k < 4 else 17) for k in (_small(k, 4) for k in kinds)]
    chunks = list(_get_chunks(c, xs))
    results = [_process_chunk(_ident, ch) for ch in chunks]
    try:
        got = list(_chain_from_iterable_of_lists(results))
    except BaseException as e:  # noqa: harness-level comparison of outcomes
        if any(e is v for v in _EXC_VALUES):
            return False  # a returned exception object was raised
        raise
    want = list(map(_ident, xs))
    return len(got) == len(want) and all(g is w for g, w in zip(got, want))
