"""C17 (only_physical_cores clause): what "the detected number of physical cores" is on Linux.

The E-SYM unit abstracts the probe to its return value; this harness runs the real
`_count_physical_cores_linux` against a stubbed `subprocess.run` whose output is built from symbolic
small integers: `lscpu --parse=core` prints comment lines starting with '#' and one core id per logical
CPU; the number of physical cores is the number of distinct ids.  If lscpu cannot be run the function
falls back to the distinct `core id` lines of /proc/cpuinfo."""
from typing import List

import loky.backend.context as cx

from .c04_contain import _conc
from .fakes import NS, Log


def check_linux_probe(ids: List[int], comments: List[int]) -> bool:
    """
    pre: len(ids) <= 3 and len(comments) <= 2
    pre: all(0 <= i <= 2 for i in ids) and all(0 <= c <= 3 for c in comments)
    post: _
    """
    return _probe(ids, comments, False, [])


def check_linux_probe_fallback(proc_ids: List[int]) -> bool:
    """
    pre: len(proc_ids) <= 4
    pre: all(0 <= i <= 2 for i in proc_ids)
    post: _
    """
    return _probe([], [], True, proc_ids)


def _probe(ids, comments, lscpu_fails, proc_ids):
    ids = [_conc(i, 2) for i in ids]
    proc_ids = [_conc(i, 2) for i in proc_ids]
    comments = sorted(_conc(c, 3) for c in comments)
    lines = [str(i) for i in ids]
    for k, pos in enumerate(comments):  # comment lines at arbitrary positions
        lines.insert(min(pos, len(lines)), "# The following is the parsable format" if k == 0 else "# Core")
    log = Log()

    def run(cmd, capture_output=False, text=False):
        log.add("run", tuple(cmd), capture_output, text)
        if cmd[0] == "lscpu":
            if lscpu_fails:
                raise FileNotFoundError("lscpu")
            return NS(stdout="\n".join(lines) + ("\n" if lines else ""))
        if cmd[0] == "cat":
            out = []
            for n, i in enumerate(proc_ids):
                out += [f"processor\t: {n}", "model name\t: x", f"core id\t\t: {i}", ""]
            return NS(stdout="\n".join(out))
        raise AssertionError(f"unexpected command {cmd}")

    saved = cx.subprocess
    cx.subprocess = NS(run=run)
    try:
        got = cx._count_physical_cores_linux()
    finally:
        cx.subprocess = saved
    if not lscpu_fails:
        return got == len(set(ids)) and log.count("run") == 1 and log[0][1] == ("lscpu", "--parse=core") \
            and log[0][2] is True and log[0][3] is True
    return got == len(set(proc_ids)) and [e[1][0] for e in log] == ["lscpu", "cat"]
