"""C11/C12/C13: the real `resource_tracker.main(fd)` loop driven through a fake
`open()`; cleanup functions, `sys`, `signal`, `warnings` of the module are
replaced by recorders for the duration of the call."""
import sys as _sys
from typing import List

import loky.backend.resource_tracker as rt

from .c04_contain import _conc
from .fakes import NS, Log

CMDS = ["REGISTER", "UNREGISTER", "MAYBE_UNLINK", "PROBE", "FROB"]
RTYPES = ["file", "folder", "semlock", "socket"]
NAMES = ["a", "a:b", "q"]


class _FakeFile:
    def __init__(self, lines, log):
        self.lines = list(lines)
        self.log = log

    def readline(self):
        if self.lines:
            return self.lines.pop(0)
        self.log.add("eof")
        return b""

    def __enter__(self):
        return self

    def __exit__(self, *a):
        self.log.add("closed")


def run_main(lines, cleanup=None, warn_raises=False, failing=()):
    """Run the real main() over `lines` (bytes). Returns the event log:
    ('clean', rtype, name) / ('hook', exc type name) / ('warn', text) /
    ('signal', signum, handler) / ('eof',)"""
    log = Log()
    saved = (rt._CLEANUP_FUNCS, rt.sys, rt.signal, rt.warnings, rt.__dict__.get("open"))
    real_signal = rt.signal

    def mk(rtype):
        def clean(name):
            log.add("clean", rtype, name)
            if (rtype, name) in failing:
                raise FileNotFoundError(name)  # the resource is already gone / cannot be removed
        return clean

    rt._CLEANUP_FUNCS = {k: mk(k) for k in saved[0].keys()}
    if cleanup:
        def both(rtype, f):
            return lambda name: (log.add("clean", rtype, name), f(name))[1]
        for k, f in cleanup.items():
            rt._CLEANUP_FUNCS[k] = both(k, f)
    rt.sys = NS(stdin=NS(close=lambda: None), stdout=NS(close=lambda: None), platform=_sys.platform,
                exc_info=_sys.exc_info,
                excepthook=lambda t, e, tb: log.add("hook", t.__name__))
    rt.signal = NS(signal=lambda s, h: log.add("signal", int(s), h), SIGINT=real_signal.SIGINT,
                   SIGTERM=real_signal.SIGTERM, SIG_IGN=real_signal.SIG_IGN,
                   SIG_UNBLOCK=real_signal.SIG_UNBLOCK,
                   pthread_sigmask=lambda how, sigs: log.add("sigmask", int(how)))
    def warn(msg, *a, **k):
        log.add("warn", str(msg)[:60])
        if warn_raises:
            raise UserWarning(msg)  # the tracker inherits -W error / PYTHONWARNINGS=error from its parent
    rt.warnings = NS(warn=warn)
    rt.open = lambda fd, mode: _FakeFile(lines, log)
    try:
        rt.main(99)
    finally:
        rt._CLEANUP_FUNCS, rt.sys, rt.signal, rt.warnings = saved[:4]
        if saved[4] is None:
            del rt.open
        else:
            rt.open = saved[4]
    return log


def _line(cmd, name, rtype):
    return f"{cmd}:{name}:{rtype}\n".encode("ascii")


class Ref:
    """25-line reference model of the protocol."""

    def __init__(self):
        self.reg = {"folder": {}, "file": {}, "semlock": {}}
        self.events = []

    def request(self, cmd, name, rtype):
        if cmd == "PROBE":
            return
        if rtype not in self.reg:
            return self.events.append(("hook", "ValueError"))
        r = self.reg[rtype]
        if cmd == "REGISTER":
            r[name] = r.get(name, 0) + 1
        elif cmd == "UNREGISTER":
            if name not in r:
                return self.events.append(("hook", "KeyError"))
            del r[name]
        elif cmd == "MAYBE_UNLINK":
            if name not in r:
                return self.events.append(("hook", "KeyError"))
            r[name] -= 1
            if r[name] == 0:
                del r[name]
                self.events.append(("clean", rtype, name))
        else:
            self.events.append(("hook", "RuntimeError"))

    def sweep(self):
        out = []
        for rtype in ("file", "semlock", "folder"):  # folders after all other kinds
            out.append(sorted(("clean", rtype, n) for n in self.reg[rtype]))
        return out


def _compare(log, ref):
    ev = [e for e in log if e[0] in ("clean", "hook")]
    eof = [i for i, e in enumerate(log) if e[0] == "eof"]
    if len(eof) != 1:
        return False
    pre = [e for e in log[: eof[0]] if e[0] in ("clean", "hook")]
    post = [e for e in log[eof[0]:] if e[0] == "clean"]
    if pre != ref.events:
        return False  # cleanup exactly at the request that zeroes the count; errors reported, nothing else
    sw = ref.sweep()
    flat = [e for grp in sw for e in grp]
    if sorted(post) != sorted(flat):
        return False  # end-of-life: everything still counted, nothing else
    # folders last
    n_folder = len(sw[2])
    if n_folder and any(e[1] != "folder" for e in post[len(post) - n_folder:]):
        return False
    # no leak warning when nothing is left
    leaks = [e for e in log if e[0] == "warn" and "leaked" in e[1]]
    return len(leaks) == sum(1 for grp in sw if grp)


def check_step(c0: int, c1: int, c2: int, cmd: int, name: int, rtype: int) -> bool:
    """
    pre: 0 <= c0 <= 2 and 0 <= c1 <= 1 and 0 <= c2 <= 1
    pre: 0 <= cmd <= 4 and 0 <= name <= 2 and 0 <= rtype <= 3
    post: _
    """
    c0, c1, c2 = _conc(c0, 2), _conc(c1, 1), _conc(c2, 1)
    cmd, name, rtype = CMDS[_conc(cmd, 4)], NAMES[_conc(name, 2)], RTYPES[_conc(rtype, 3)]
    ref = Ref()
    lines = []
    for n, t, c in ((NAMES[0], "file", c0), (NAMES[1], "file", c1), (NAMES[0], "folder", c2)):
        for _ in range(c):
            lines.append(_line("REGISTER", n, t))
            ref.request("REGISTER", n, t)
    lines.append(_line(cmd, name, rtype))
    ref.request(cmd, name, rtype)
    log = run_main(lines)
    return _compare(log, ref)


def check_seq(cmds: List[int], names: List[int], rtypes: List[int]) -> bool:
    """
    pre: len(cmds) <= 3 and len(names) == len(cmds) and len(rtypes) == len(cmds)
    pre: all(0 <= c <= 2 for c in cmds) and all(0 <= n <= 1 for n in names) and all(0 <= t <= 1 for t in rtypes)
    post: _
    """
    ref = Ref()
    lines = []
    for c, n, t in zip(cmds, names, rtypes):
        cmd, name, rtype = CMDS[_conc(c, 2)], NAMES[_conc(n, 1)], RTYPES[_conc(t, 1)]
        lines.append(_line(cmd, name, rtype))
        ref.request(cmd, name, rtype)
    return _compare(run_main(lines), ref)


RAW = [b"\n", b"REGISTER\n", b"REGISTER:a\n", b"\xff\xfe:a:file\n", b"MAYBE_UNLINK:a:file",
       b"  REGISTER:a:file  \n", b"REGISTER:a:file:\n", b":::\n", b"UNREGISTER:a:file\r\n"]
RAW_REF = [("hook", "ValueError"), ("hook", "ValueError"), ("hook", "ValueError"),
           ("hook", "UnicodeDecodeError"), "MAYBE", "REG", ("hook", "ValueError"), ("hook", "ValueError"), "UNREG"]


def check_raw(c0: int, k: int) -> bool:
    """
    pre: 0 <= c0 <= 2 and 0 <= k <= 8
    post: _
    """
    c0, k = _conc(c0, 2), _conc(k, 8)
    ref = Ref()
    lines = []
    for _ in range(c0):
        lines.append(_line("REGISTER", "a", "file"))
        ref.request("REGISTER", "a", "file")
    ref.request("REGISTER", "b", "folder")
    lines.append(_line("REGISTER", "b", "folder"))
    lines.append(RAW[k])
    r = RAW_REF[k]
    if r == "MAYBE":
        ref.request("MAYBE_UNLINK", "a", "file")
    elif r == "REG":
        ref.request("REGISTER", "a", "file")
    elif r == "UNREG":
        ref.request("UNREGISTER", "a", "file")
    else:
        ref.events.append(r)
    return _compare(run_main(lines), ref)


def check_signals_before_read(n: int) -> bool:
    """
    pre: 0 <= n <= 2
    post: _
    """
    n = _conc(n, 2)
    log = run_main([_line("REGISTER", "a", "file")] * n)
    import signal
    sig = [e for e in log if e[0] == "signal"]
    first_read = min([i for i, e in enumerate(log) if e[0] in ("eof", "clean", "hook")] or [len(log)])
    idx = [i for i, e in enumerate(log) if e[0] == "signal"]
    want = {(int(signal.SIGINT), signal.SIG_IGN), (int(signal.SIGTERM), signal.SIG_IGN)}
    return {(e[1], e[2]) for e in sig} == want and all(i < first_read for i in idx) and \
        log.count("clean", "file", "a") == (1 if n else 0)


def check_failing_cleanup(cmds: List[int], fails: bool, warn_raises: bool, left: int) -> bool:
    """
    pre: len(cmds) <= 3 and all(0 <= c <= 2 for c in cmds) and 0 <= left <= 2
    pre: not (fails and warn_raises)
    post: _
    """
    # history on one name whose destruction *fails* at the zeroing request (file already removed by its owner),
    # followed by up to 3 more requests on that name, with `left` other resources still counted at end-of-life;
    # warnings may be exceptions in the tracker process.  The counts follow the reference model whatever the
    # cleanup function does, and the end-of-life sweep destroys everything still counted - warnings or not.
    # (A failing cleanup *and* raising warnings together are outside: the warning about the failure then aborts
    # the request / the sweep on the unchanged code too.)
    left = _conc(left, 2)
    ref = Ref()
    lines = []
    for cmd in ("REGISTER", "MAYBE_UNLINK"):
        lines.append(_line(cmd, NAMES[0], "file"))
        ref.request(cmd, NAMES[0], "file")
    for c in cmds:
        cmd = CMDS[_conc(c, 2)]
        lines.append(_line(cmd, NAMES[0], "file"))
        ref.request(cmd, NAMES[0], "file")
    for j in range(left):
        t = ("semlock", "folder")[j]
        lines.append(_line("REGISTER", NAMES[1], t))
        ref.request("REGISTER", NAMES[1], t)
    failing = {("file", NAMES[0])} if fails else set()
    log = run_main(lines, warn_raises=bool(warn_raises), failing=failing)
    if warn_raises:
        # the summary warnings may be lost, the destructions may not
        eof = [i for i, e in enumerate(log) if e[0] == "eof"]
        if len(eof) != 1:
            return False
        pre = [e for e in log[: eof[0]] if e[0] in ("clean", "hook")]
        post = sorted(e for e in log[eof[0]:] if e[0] == "clean")
        return pre == ref.events and post == sorted(e for grp in ref.sweep() for e in grp)
    return _compare(log, ref)
