"""C19: nesting depth bound (real _check_max_depth, real constructor ordering)."""
import loky.process_executor as pe
from loky.process_executor import LokyRecursionError, ProcessPoolExecutor

from .fakes import NS, FakeCtx, Log


def check_max_depth(max_depth: int, d: int, fork: bool) -> bool:
    """
    pre: 0 <= d <= 40 and -5 <= max_depth <= 40
    post: _
    """
    saved = (pe.MAX_DEPTH, pe._CURRENT_DEPTH)
    pe.MAX_DEPTH, pe._CURRENT_DEPTH = max_depth, d
    try:
        try:
            pe._check_max_depth(NS(get_start_method=lambda: "fork" if fork else "loky"))
            raised = False
        except LokyRecursionError:
            raised = True
    finally:
        pe.MAX_DEPTH, pe._CURRENT_DEPTH = saved
    want = (fork and d >= 1) or (max_depth >= 1 and d >= max_depth)
    return raised == want


def check_ctor_checks_depth_first(max_depth: int, d: int, fork: bool) -> bool:
    """
    pre: 0 <= d <= 12 and -1 <= max_depth <= 12
    post: _
    """
    log = Log()
    ctx = FakeCtx(log, method="fork" if fork else "loky")
    saved = (pe.MAX_DEPTH, pe._CURRENT_DEPTH, pe._SafeQueue, pe.SimpleQueue, pe._ThreadWakeup,
             pe._check_system_limits)
    pe.MAX_DEPTH, pe._CURRENT_DEPTH = max_depth, d
    pe._SafeQueue = lambda **kw: (log.add("callq"), NS())[1]
    pe.SimpleQueue = lambda reducers=None, ctx=None: (log.add("resq"), NS())[1]
    pe._ThreadWakeup = lambda: (log.add("wakeup-pipe"), NS())[1]
    pe._check_system_limits = lambda: None
    try:
        try:
            ex = ProcessPoolExecutor(max_workers=2, context=ctx)
            raised = False
        except LokyRecursionError:
            raised = True
    finally:
        (pe.MAX_DEPTH, pe._CURRENT_DEPTH, pe._SafeQueue, pe.SimpleQueue, pe._ThreadWakeup,
         pe._check_system_limits) = saved
    want = (fork and d >= 1) or (max_depth >= 1 and d >= max_depth)
    if raised != want:
        return False
    if raised:
        return len(log) == 0  # nothing was created: no lock, no pipe, no queue, no process
    return log.count("callq") == 1 and log.count("resq") == 1 and not ctx.created


def check_env_parse(kind: int, v: int) -> bool:
    """
    pre: 0 <= kind <= 1 and -3 <= v <= 30
    post: _
    """
    # MAX_DEPTH = int(os.environ.get("LOKY_MAX_DEPTH", 10)) is evaluated at import; re-evaluate the
    # same expression from the module source with a symbolic environment.
    import ast
    import inspect
    src = inspect.getsource(pe)
    node = [n for n in ast.parse(src).body if isinstance(n, ast.Assign)
            and getattr(n.targets[0], "id", "") == "MAX_DEPTH"][0]
    env = {} if kind == 0 else {"LOKY_MAX_DEPTH": str(v)}
    val = eval(compile(ast.Expression(node.value), "<MAX_DEPTH>", "eval"), {"os": NS(environ=env), "int": int})
    return val == (10 if kind == 0 else v)
