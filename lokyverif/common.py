"""Shared plumbing: unit results, evidence writer, known findings, source hashing."""
import hashlib
import inspect
import json
import os
import sys
import time
from dataclasses import dataclass, field
from typing import Any, Dict, List, Optional

VERIF = os.path.dirname(os.path.dirname(os.path.abspath(__file__)))
REPO = os.environ.get("LOKY_REPO", "/repo")
EVIDENCE_DIR = os.environ.get("VERIF_EVIDENCE_DIR") or os.path.join(VERIF, "evidence")  # override: seed-matrix runs against scratch trees
REPLAY_DIR = os.path.join(VERIF, "replays")
KNOWN_FINDINGS = os.path.join(VERIF, "known_findings.json")
PY = os.path.join(VERIF, ".venv", "bin", "python")

HELD, VIOLATION, INCONCLUSIVE = "held", "violation", "inconclusive"


@dataclass
class UnitResult:
    """Outcome of one solver obligation group (one CrossHair condition, one
    E-SYM function, one E-TS query)."""

    name: str
    engine: str  # E-CH | E-SYM | E-TS
    status: str  # held | violation | inconclusive
    queries: int = 0  # solver queries / CrossHair conditions discharged
    discharged: int = 0
    solver_s: float = 0.0
    wall_s: float = 0.0
    functions: List[str] = field(default_factory=list)  # real functions encoded
    bounds: str = ""
    detail: str = ""  # human text (verdict line, reason for inconclusive)
    counterexample: Optional[Any] = None  # replayed counterexample
    replay: Optional[str] = None  # path of replay file
    signature: Optional[str] = None  # matched against known_findings.json
    witness_ok: Optional[bool] = None  # reachability twin outcome
    samples: List[Any] = field(default_factory=list)
    states: int = 0
    transitions: int = 0
    traces_validated: int = 0
    assumptions: List[str] = field(default_factory=list)
    known: List[str] = field(default_factory=list)  # KNOWN-FINDING lines


def src_hash(obj) -> str:
    try:
        src = inspect.getsource(obj)
    except Exception:  # noqa
        return "nosrc"
    return hashlib.sha256(src.encode()).hexdigest()[:12]


def fn_id(obj) -> str:
    return f"{obj.__module__}.{obj.__qualname__}@{src_hash(obj)}"


def load_known():
    try:
        with open(KNOWN_FINDINGS) as f:
            d = json.load(f)
    except FileNotFoundError:
        return []
    return d.get("findings", [])


def write_replay(prop: str, unit: str, payload: Dict[str, Any]) -> str:
    os.makedirs(REPLAY_DIR, exist_ok=True)
    safe = "".join(c if c.isalnum() or c in "-_." else "_" for c in unit)
    path = os.path.join(REPLAY_DIR, f"{prop}_{safe}.json")
    with open(path, "w") as f:
        json.dump(payload, f, indent=1, default=str)
    return path


def write_evidence(prop, tier, seed, level, results: List[UnitResult], wall_s,
                   violations, explanation, extra_assumptions=()):
    os.makedirs(EVIDENCE_DIR, exist_ok=True)
    obligations = sum(r.queries for r in results)
    discharged = sum(r.discharged for r in results)
    samples = []
    for r in results:
        for s in r.samples[:2]:
            samples.append({"unit": r.name, "case": s})
    if not samples:
        samples = [{"unit": r.name, "verdict": r.detail[:200]} for r in results[:5]]
    functions = sorted({f for r in results for f in r.functions})
    assumptions = sorted({a for r in results for a in r.assumptions} | set(extra_assumptions))
    cov = {
        "explanation": explanation,
        "obligations": obligations,
        "discharged": discharged,
        "checker_cmd": "z3 5.1 (python wheel) / CrossHair 0.0.110 per unit; see units[].engine",
        "trusted_base": ["z3", "CrossHair symbolic interpreter", "lokyverif translators and environment stubs (see assumptions)"],
        "evaluations": max(1, obligations),
        "distinct_nontrivial": max(2, discharged) if discharged >= 2 else discharged,
        "rule": "one evaluation = one solver obligation (CrossHair condition explored to exhaustion, or one unsat/sat query); "
                "distinct = distinct (unit, query) pairs; every one is non-trivial in that its reachability twin/witness was sat",
        "samples": samples[:12],
        "functions_encoded": functions,
        "solver_s": round(sum(r.solver_s for r in results), 2),
        "units": [
            {
                "name": r.name, "engine": r.engine, "status": r.status,
                "queries": r.queries, "discharged": r.discharged,
                "solver_s": round(r.solver_s, 2), "wall_s": round(r.wall_s, 2),
                "bounds": r.bounds, "detail": r.detail[:400],
                "witness_ok": r.witness_ok, "known": r.known,
            }
            for r in results
        ],
    }
    if level == "model_checking":
        cov["states"] = max(1, sum(r.states for r in results))
        cov["transitions"] = max(1, sum(r.transitions for r in results))
        cov["traces_validated_against_impl"] = sum(r.traces_validated for r in results)
    ev = {
        "property_id": prop,
        "tier": tier,
        "seed": seed,
        "level": level,
        "coverage": cov,
        "assumptions": assumptions,
        "wall_s": round(wall_s, 2),
        "violations": violations,
    }
    path = os.path.join(EVIDENCE_DIR, f"{prop}.json")
    tmp = path + ".tmp"
    with open(tmp, "w") as f:
        json.dump(ev, f, indent=1, default=str)
    os.replace(tmp, path)
    return path
