"""E-SYM: path-complete symbolic execution of loop-free Python kernels, AST -> z3.

The function under analysis is re-read from /repo's current source on every run
(`ast.parse(inspect.getsource(...))`), interpreted statement by statement with
z3 terms as values.  Every symbolic branch is a decision; the explorer
enumerates the decision tree depth-first, pruning infeasible branches with the
solver, so every feasible path is visited exactly once.  Library calls resolve to
*environment models* supplied by the unit.  Anything outside the supported
subset raises Unsupported -> the unit is inconclusive (never pass, never alarm).
"""
import ast
import inspect
import textwrap
import time

import z3


class Unsupported(Exception):
    pass


class SymRaise(Exception):
    """A Python exception raised by the interpreted code."""

    def __init__(self, exc):
        self.exc = exc


class ExcVal:
    """Interpreted exception object."""

    def __init__(self, tname, args=()):
        self.tname, self.args = tname, tuple(args)
        self.attrs = {"__traceback__": None}

    def __repr__(self):
        return f"{self.tname}{self.args}"


# minimal class hierarchy used for `except` matching
PARENTS = {
    "BaseException": None, "Exception": "BaseException", "ValueError": "Exception",
    "RuntimeError": "Exception", "NotImplementedError": "RuntimeError", "ImportError": "Exception",
    "ModuleNotFoundError": "ImportError", "OSError": "Exception", "KeyError": "LookupError",
    "LookupError": "Exception", "IndexError": "LookupError", "TypeError": "Exception",
    "AssertionError": "Exception", "AttributeError": "Exception", "FileNotFoundError": "OSError",
    "ChildProcessError": "OSError", "ProcessLookupError": "OSError", "LokyRecursionError": "RuntimeError",
    "ZeroDivisionError": "ArithmeticError", "ArithmeticError": "Exception", "UnicodeDecodeError": "ValueError",
    "KeyboardInterrupt": "BaseException", "SystemExit": "BaseException",
}


def is_subclass(t, base):
    while t is not None:
        if t == base:
            return True
        t = PARENTS.get(t, "Exception" if t not in PARENTS else None)
    return False


class TrueDiv:
    """q / p of two mathematical integers, kept exact until a rounding call consumes it."""

    def __init__(self, num, den):
        self.num, self.den = num, den


class StrInt:
    """A string token that is the decimal rendering of the (symbolic) integer `val`."""

    def __init__(self, val):
        self.val = val


class Obj:
    """Attribute bag for interpreted objects / modules."""

    def __init__(self, name="obj", **attrs):
        self._name = name
        self.attrs = dict(attrs)

    def __repr__(self):
        return f"<{self._name}>"


class Func:
    """An interpreted (loky) function."""

    def __init__(self, node, globals_):
        self.node, self.globals = node, globals_


class _Return(Exception):
    def __init__(self, v):
        self.v = v


class _Break(Exception):
    pass


class _Continue(Exception):
    pass


def is_sym(v):
    return isinstance(v, z3.ExprRef)


class Explorer:
    """Depth-first enumeration of the decision tree."""

    def __init__(self, timeout_ms=20000):
        self.solver = z3.Solver()
        self.solver.set("timeout", timeout_ms)
        self.queries = 0
        self.solver_s = 0.0
        self.prefix = []
        self.pending = []
        self.paths = 0

    def check(self, *extra):
        t0 = time.time()
        self.queries += 1
        if getattr(self, "hinted", 0):
            # an earlier query of this run was only decidable with pinned inputs: try those first
            for hint in getattr(self, "hints", []):
                r2 = self.solver.check(*extra, *hint)
                self.queries += 1
                if r2 == z3.sat:
                    self.solver_s += time.time() - t0
                    return r2
        r = self.solver.check(*extra)
        self.solver_s += time.time() - t0
        if r == z3.unknown:
            # bug-hunting fallback for queries the solver cannot decide over the full domain (typically a product
            # or quotient of two symbolic integers): retry with some inputs pinned to representative constants.
            # `sat` under a hint is a genuine model of the original query (it is replayed like any other);
            # anything else leaves the query undecided, i.e. the unit inconclusive - never "held".
            why = self.solver.reason_unknown()
            for hint in getattr(self, "hints", []):
                t1 = time.time()
                r2 = self.solver.check(*extra, *hint)
                self.solver_s += time.time() - t1
                self.queries += 1
                if r2 == z3.sat:
                    self.hinted = getattr(self, "hinted", 0) + 1
                    return r2
            raise Unsupported(f"solver unknown: {why}")
        return r

    def run_all(self, body):
        """body(path) is executed once per feasible path."""
        self.pending = [[]]
        while self.pending:
            self.prefix = self.pending.pop()
            path = Path(self)
            self.solver.push()
            try:
                body(path)
                self.paths += 1
            except StopExploration:
                self.pending = []
            finally:
                self.solver.pop()


class StopExploration(Exception):
    """Raised by a unit once it holds enough counterexamples: the remaining paths are not explored (the run can
    then only end as a violation - if one replays - or inconclusive, never as held)."""


class Path:
    def __init__(self, ex):
        self.ex = ex
        self.pos = 0
        self.cond = []
        self.events = []
        self.fresh = 0
        self.decisions = []

    def var(self, name, sort="int"):
        self.fresh += 1
        n = f"{name}"
        if sort == "int":
            return z3.Int(n)
        if sort == "bool":
            return z3.Bool(n)
        if isinstance(sort, int):
            return z3.BitVec(n, sort)
        raise Unsupported(sort)

    def assume(self, c):
        if isinstance(c, bool):
            if not c:
                raise Unsupported("assume(False)")
            return
        self.cond.append(c)
        self.ex.solver.add(c)

    def branch(self, c):
        """Decide symbolic Boolean c on this path."""
        if isinstance(c, bool):
            return c
        c = z3.simplify(c)
        if z3.is_true(c):
            return True
        if z3.is_false(c):
            return False
        ex = self.ex
        if self.pos < len(ex.prefix):
            choice = ex.prefix[self.pos]
        else:
            can_t = ex.check(c) == z3.sat
            can_f = ex.check(z3.Not(c)) == z3.sat
            if can_t and can_f:
                ex.pending.append(ex.prefix[: self.pos] + [False])
                choice = True
            elif can_t:
                choice = True
            elif can_f:
                choice = False
            else:
                raise Unsupported("infeasible path reached")
            ex.prefix = ex.prefix[: self.pos] + [choice]
        self.pos += 1
        self.decisions.append(choice)
        self.assume(c if choice else z3.Not(c))
        return choice

    def choose(self, label, n):
        """Nondeterministic choice among n alternatives (environment)."""
        for i in range(n - 1):
            b = z3.Bool(f"choice!{label}!{i}!{self.fresh}")
            self.fresh += 1
            if self.branch(b):
                return i
        return n - 1


class Interp:
    def __init__(self, path, globals_, builtins=None):
        self.p = path
        self.globals = globals_
        self.builtins = builtins or {}
        self.depth = 0

    # ---- values -------------------------------------------------------
    def truth(self, v):
        if isinstance(v, z3.BoolRef):
            return self.p.branch(v)
        if isinstance(v, z3.ArithRef):
            return self.p.branch(v != 0)
        if isinstance(v, z3.BitVecRef):
            return self.p.branch(v != 0)
        if isinstance(v, (bool, int, str, type(None), list, tuple, dict)):
            return bool(v)
        if isinstance(v, (Obj, ExcVal, Func, StrInt)):
            return True
        raise Unsupported(f"truth of {type(v).__name__}")

    def as_bool_term(self, v):
        if isinstance(v, z3.BoolRef):
            return v
        return z3.BoolVal(self.truth(v))

    # ---- calls --------------------------------------------------------
    def call_function(self, f, args, kwargs=None):
        kwargs = kwargs or {}
        if isinstance(f, Func):
            self.depth += 1
            if self.depth > 30:
                raise Unsupported("recursion depth")
            node = f.node
            env = {}
            params = node.args
            names = [a.arg for a in params.args]
            defaults = [None] * (len(names) - len(params.defaults)) + list(params.defaults)
            for i, n in enumerate(names):
                if i < len(args):
                    env[n] = args[i]
                elif n in kwargs:
                    env[n] = kwargs[n]
                elif defaults[i] is not None:
                    env[n] = self.eval(defaults[i], {}, self.globals)
                else:
                    raise Unsupported(f"missing argument {n}")
            try:
                # single-module interpretation: module-level names resolve in the interpreter's
                # globals (the unit's per-path copy with environment models substituted)
                self.exec_block(node.body, env, self.globals)
                return None
            except _Return as r:
                return r.v
            finally:
                self.depth -= 1
        if callable(f):
            return f(self, *args, **kwargs)
        raise Unsupported(f"call of {f!r}")

    # ---- statements ---------------------------------------------------
    def exec_block(self, stmts, env, g):
        for s in stmts:
            self.exec(s, env, g)

    def exec(self, s, env, g):
        m = getattr(self, "s_" + type(s).__name__, None)
        if m is None:
            raise Unsupported(f"statement {type(s).__name__} at line {getattr(s, 'lineno', '?')}")
        return m(s, env, g)

    def s_Expr(self, s, env, g):
        if isinstance(s.value, ast.Constant):
            return
        self.eval(s.value, env, g)

    def s_Pass(self, s, env, g):
        pass

    def s_Global(self, s, env, g):
        env.setdefault("__globals__", set()).update(s.names)

    def s_Return(self, s, env, g):
        raise _Return(self.eval(s.value, env, g) if s.value is not None else None)

    def s_Break(self, s, env, g):
        raise _Break()

    def s_Continue(self, s, env, g):
        raise _Continue()

    def assign(self, target, v, env, g):
        if isinstance(target, ast.Name):
            if target.id in env.get("__globals__", ()):
                g[target.id] = v
            else:
                env[target.id] = v
        elif isinstance(target, (ast.Tuple, ast.List)):
            if not isinstance(v, (list, tuple)) or len(v) != len(target.elts):
                if isinstance(v, (list, tuple)):
                    raise SymRaise(ExcVal("ValueError", ("unpack",)))
                raise Unsupported("unpack of non-sequence")
            for t, x in zip(target.elts, v):
                self.assign(t, x, env, g)
        elif isinstance(target, ast.Attribute):
            o = self.eval(target.value, env, g)
            if not isinstance(o, (Obj, ExcVal)):
                raise Unsupported("attribute store on non-object")
            o.attrs[target.attr] = v
        else:
            raise Unsupported(f"assignment target {type(target).__name__}")

    def s_Assign(self, s, env, g):
        v = self.eval(s.value, env, g)
        for t in s.targets:
            self.assign(t, v, env, g)

    def s_AugAssign(self, s, env, g):
        cur = self.eval(ast.copy_location(_load(s.target), s), env, g)
        v = self.binop(s.op, cur, self.eval(s.value, env, g))
        self.assign(s.target, v, env, g)

    def s_If(self, s, env, g):
        if self.truth(self.eval(s.test, env, g)):
            self.exec_block(s.body, env, g)
        else:
            self.exec_block(s.orelse, env, g)

    def s_Assert(self, s, env, g):
        if not self.truth(self.eval(s.test, env, g)):
            raise SymRaise(ExcVal("AssertionError"))

    def s_While(self, s, env, g):
        n = 0
        while self.truth(self.eval(s.test, env, g)):
            n += 1
            if n > 8:
                raise Unsupported("loop bound (8) exceeded")
            try:
                self.exec_block(s.body, env, g)
            except _Break:
                return
            except _Continue:
                continue
        self.exec_block(s.orelse, env, g)

    def s_For(self, s, env, g):
        it = self.eval(s.iter, env, g)
        if not isinstance(it, (list, tuple, range)):
            raise Unsupported("for over symbolic iterable")
        for x in it:
            self.assign(s.target, x, env, g)
            try:
                self.exec_block(s.body, env, g)
            except _Break:
                return
            except _Continue:
                continue
        self.exec_block(s.orelse, env, g)

    def s_Raise(self, s, env, g):
        if s.exc is None:
            cur = env.get("__exc__")
            if cur is None:
                raise Unsupported("bare raise outside handler")
            raise SymRaise(cur)
        v = self.eval(s.exc, env, g)
        if isinstance(v, ExcVal):
            raise SymRaise(v)
        if isinstance(v, ExcType):
            raise SymRaise(ExcVal(v.name))
        raise Unsupported("raise of non-exception")

    def s_Try(self, s, env, g):
        try:
            try:
                self.exec_block(s.body, env, g)
            except SymRaise as r:
                for h in s.handlers:
                    if self.handler_matches(h, r.exc, env, g):
                        if h.name:
                            env[h.name] = r.exc
                        old = env.get("__exc__")
                        env["__exc__"] = r.exc
                        try:
                            self.exec_block(h.body, env, g)
                        finally:
                            env["__exc__"] = old
                        break
                else:
                    raise
            else:
                self.exec_block(s.orelse, env, g)
        finally:
            # note: control-flow exceptions (_Return etc.) also pass through here, as in Python
            if s.finalbody:
                self.exec_block(s.finalbody, env, g)

    def handler_matches(self, h, exc, env, g):
        if h.type is None:
            return True
        t = self.eval(h.type, env, g)
        ts = t if isinstance(t, (tuple, list)) else [t]
        for x in ts:
            if not isinstance(x, ExcType):
                raise Unsupported("except with non-class")
            if is_subclass(exc.tname, x.name):
                return True
        return False

    def s_With(self, s, env, g):
        if len(s.items) != 1:
            raise Unsupported("multi-item with")
        cm = self.eval(s.items[0].context_expr, env, g)
        enter = self.getattr(cm, "__enter__")
        v = self.call_function(enter, [])
        if s.items[0].optional_vars is not None:
            self.assign(s.items[0].optional_vars, v, env, g)
        try:
            self.exec_block(s.body, env, g)
        finally:
            self.call_function(self.getattr(cm, "__exit__"), [None, None, None])

    def s_Import(self, s, env, g):
        for a in s.names:
            mod = self.builtins.get("__import__")
            if mod is None:
                raise Unsupported("import without model")
            env[a.asname or a.name.split(".")[0]] = mod(self, a.name)

    def s_ImportFrom(self, s, env, g):
        raise Unsupported("from-import inside function")

    # ---- expressions --------------------------------------------------
    def eval(self, e, env, g):
        m = getattr(self, "e_" + type(e).__name__, None)
        if m is None:
            raise Unsupported(f"expression {type(e).__name__} at line {getattr(e, 'lineno', '?')}")
        return m(e, env, g)

    def e_Constant(self, e, env, g):
        return e.value

    def e_Name(self, e, env, g):
        if e.id in env and e.id not in env.get("__globals__", ()):
            return env[e.id]
        if e.id in g:
            return g[e.id]
        if e.id in self.builtins:
            return self.builtins[e.id]
        if e.id in PARENTS:
            return ExcType(e.id)
        raise Unsupported(f"unbound name {e.id}")

    def e_Tuple(self, e, env, g):
        return tuple(self.eval(x, env, g) for x in e.elts)

    def e_List(self, e, env, g):
        return [self.eval(x, env, g) for x in e.elts]

    def e_JoinedStr(self, e, env, g):
        for v in e.values:  # evaluate for side effects / unbound names, result is opaque text
            if isinstance(v, ast.FormattedValue):
                self.eval(v.value, env, g)
        return "<formatted>"

    def e_IfExp(self, e, env, g):
        if self.truth(self.eval(e.test, env, g)):
            return self.eval(e.body, env, g)
        return self.eval(e.orelse, env, g)

    def e_BoolOp(self, e, env, g):
        v = None
        for x in e.values:
            v = self.eval(x, env, g)
            t = self.truth(v)
            if isinstance(e.op, ast.And) and not t:
                return v
            if isinstance(e.op, ast.Or) and t:
                return v
        return v

    def e_UnaryOp(self, e, env, g):
        v = self.eval(e.operand, env, g)
        if isinstance(e.op, ast.Not):
            return not self.truth(v)
        if isinstance(e.op, ast.USub):
            return -v
        raise Unsupported("unary op")

    def e_BinOp(self, e, env, g):
        return self.binop(e.op, self.eval(e.left, env, g), self.eval(e.right, env, g))

    def binop(self, op, a, b):
        num = (int, z3.ArithRef)
        bv = isinstance(a, z3.BitVecRef) or isinstance(b, z3.BitVecRef)
        if isinstance(a, bool) or isinstance(b, bool):
            a, b = (int(a) if isinstance(a, bool) else a), (int(b) if isinstance(b, bool) else b)
        if bv:
            if isinstance(op, ast.BitAnd):
                return a & b
            if isinstance(op, ast.RShift):
                return z3.LShR(a, b) if isinstance(a, z3.BitVecRef) else a >> b
            if isinstance(op, ast.Add):
                return a + b
            raise Unsupported("bit-vector op")
        if isinstance(a, num) and isinstance(b, num):
            if isinstance(op, ast.Add):
                return a + b
            if isinstance(op, ast.Sub):
                return a - b
            if isinstance(op, ast.Mult):
                return a * b
            if isinstance(op, ast.Div):
                if not self.p.branch(b != 0 if is_sym(b) else b != 0):
                    raise SymRaise(ExcVal("ZeroDivisionError"))
                return TrueDiv(a, b)
            if isinstance(op, ast.FloorDiv):
                if not self.p.branch(b != 0 if is_sym(b) else b != 0):
                    raise SymRaise(ExcVal("ZeroDivisionError"))
                return py_floordiv(self, a, b)
        if isinstance(a, str) and isinstance(b, str) and isinstance(op, ast.Add):
            return a + b
        if isinstance(a, (list, tuple)) and isinstance(b, type(a)) and isinstance(op, ast.Add):
            return a + b
        raise Unsupported(f"binop {type(op).__name__} on {type(a).__name__},{type(b).__name__}")

    def e_Compare(self, e, env, g):
        left = self.eval(e.left, env, g)
        res = None
        for op, r in zip(e.ops, e.comparators):
            right = self.eval(r, env, g)
            c = self.compare(op, left, right)
            if not self.truth(c):
                return False
            res = True
            left = right
        return res

    def compare(self, op, a, b):
        if isinstance(op, (ast.Is, ast.IsNot)):
            same = (a is b) or (a is None and b is None) or \
                (isinstance(a, bool) and isinstance(b, bool) and a == b)
            if is_sym(a) or is_sym(b):
                same = False if (a is None or b is None) else _unsup("`is` on symbolic values")
            return same if isinstance(op, ast.Is) else not same
        if isinstance(op, (ast.In, ast.NotIn)):
            if isinstance(b, (list, tuple, dict, set, str)) and not is_sym(a):
                r = a in b
            elif isinstance(b, Obj) and "__contains__" in b.attrs:
                r = self.call_function(b.attrs["__contains__"], [a])
            else:
                raise Unsupported("`in` on symbolic container")
            return r if isinstance(op, ast.In) else (z3.Not(r) if is_sym(r) else not r)
        # ordering / equality
        if isinstance(a, bool):
            a = int(a) if isinstance(b, (int, z3.ArithRef)) and not isinstance(b, bool) else a
        numa = isinstance(a, (int, z3.ArithRef, z3.BitVecRef)) and not isinstance(a, bool)
        numb = isinstance(b, (int, z3.ArithRef, z3.BitVecRef)) and not isinstance(b, bool)
        if numa and numb:
            return {ast.Eq: lambda: a == b, ast.NotEq: lambda: a != b, ast.Lt: lambda: a < b,
                    ast.LtE: lambda: a <= b, ast.Gt: lambda: a > b, ast.GtE: lambda: a >= b}[type(op)]()
        if isinstance(op, (ast.Eq, ast.NotEq)):
            if isinstance(a, StrInt) or isinstance(b, StrInt):
                # a decimal integer token never equals a non-numeric literal such as "max"
                other = b if isinstance(a, StrInt) else a
                if isinstance(other, str) and not other.lstrip("-").isdigit():
                    eq = False
                elif isinstance(other, StrInt):
                    eq = a.val == b.val
                elif isinstance(other, str):
                    eq = (a.val if isinstance(a, StrInt) else b.val) == int(other)
                else:
                    eq = False
            elif type(a) is type(b) and isinstance(a, (str, bool, type(None), tuple)):
                eq = a == b
            elif (numa and not numb) or (numb and not numa):
                eq = False  # int vs str / None
            elif a is None or b is None:
                eq = a is b
            elif isinstance(a, z3.BoolRef) or isinstance(b, z3.BoolRef):
                eq = (a == b)
            else:
                raise Unsupported(f"== on {type(a).__name__},{type(b).__name__}")
            if isinstance(op, ast.Eq):
                return eq
            return z3.Not(eq) if is_sym(eq) else not eq
        if (numa and isinstance(b, str)) or (numb and isinstance(a, str)):
            raise SymRaise(ExcVal("TypeError", ("ordering int/str",)))
        raise Unsupported(f"compare {type(op).__name__} on {type(a).__name__},{type(b).__name__}")

    def getattr(self, o, name):
        if isinstance(o, (Obj, ExcVal)):
            if name in o.attrs:
                return o.attrs[name]
            raise SymRaise(ExcVal("AttributeError", (name,)))
        if o is None:
            raise SymRaise(ExcVal("AttributeError", (name,)))
        if isinstance(o, str) and name in ("strip", "lstrip", "rstrip", "split", "startswith", "endswith", "lower", "upper",
                                           "isdigit", "isdecimal"):
            return lambda it, *a: getattr(o, name)(*a)
        if isinstance(o, StrInt):
            # the decimal rendering of an integer: no surrounding blanks, never empty, one token
            if name in ("strip", "lstrip", "rstrip", "lower", "upper"):
                return lambda it, *a: o
            if name == "split":
                return lambda it, *a: [o]
            if name in ("isdigit", "isdecimal"):
                return lambda it: it.p.branch(o.val >= 0)  # "-3".isdigit() is False
            if name == "startswith":
                return lambda it, pre, *a: (it.p.branch(o.val < 0) if pre == "-" else
                                           (False if (isinstance(pre, str) and pre and not (pre.lstrip("-").isdigit())) else
                                            _unsup("StrInt.startswith(digits)")))
        raise Unsupported(f"attribute {name} of {type(o).__name__}")

    def e_Attribute(self, e, env, g):
        return self.getattr(self.eval(e.value, env, g), e.attr)

    def e_Subscript(self, e, env, g):
        o = self.eval(e.value, env, g)
        k = self.eval(e.slice, env, g)
        if isinstance(o, (list, tuple, dict, str)) and not is_sym(k):
            try:
                return o[k]
            except (KeyError, IndexError) as ex:
                raise SymRaise(ExcVal(type(ex).__name__))
        if isinstance(o, Obj) and "__getitem__" in o.attrs:
            return self.call_function(o.attrs["__getitem__"], [k])
        raise Unsupported("subscript")

    def e_Call(self, e, env, g):
        f = self.eval(e.func, env, g)
        args = []
        for a in e.args:
            if isinstance(a, ast.Starred):
                args.extend(self.eval(a.value, env, g))
            else:
                args.append(self.eval(a, env, g))
        kwargs = {k.arg: self.eval(k.value, env, g) for k in e.keywords}
        if isinstance(f, ExcType):
            return ExcVal(f.name, args)
        return self.call_function(f, args, kwargs)


class ExcType:
    def __init__(self, name):
        self.name = name


def _unsup(msg):
    raise Unsupported(msg)


def _load(target):
    t = ast.parse(ast.unparse(target), mode="eval").body
    return t


def py_floordiv(it, a, b):
    """Python floor division on mathematical integers (z3 `/` on Int is Euclidean)."""
    if not is_sym(a) and not is_sym(b):
        return a // b
    q = a / b  # z3: a = b*q + r, 0 <= r < |b|
    r = a % b
    return z3.If(z3.Or(b > 0, r == 0), q, q - 1)


def ceil_div(a, b):
    """Exact ceil(a / b) on mathematical integers."""
    if not is_sym(a) and not is_sym(b):
        return -((-a) // b)
    q = a / b
    r = a % b
    # Euclidean: a = b*q + r, 0<=r<|b|. ceil(a/b) = q + (1 if r != 0 and b > 0 else 0)
    return z3.If(r == 0, q, z3.If(b > 0, q + 1, q))


def load_module_functions(module):
    """Parse the module's current source; return {name: Func} for top-level functions
    plus the AST of classes (methods addressed as Class.method)."""
    src = inspect.getsource(module)
    tree = ast.parse(src)
    g = {}
    funcs = {}
    for node in tree.body:
        if isinstance(node, ast.FunctionDef):
            funcs[node.name] = Func(node, g)
        elif isinstance(node, ast.ClassDef):
            for sub in node.body:
                if isinstance(sub, ast.FunctionDef):
                    funcs[f"{node.name}.{sub.name}"] = Func(sub, g)
    g.update({k: v for k, v in funcs.items() if "." not in k})
    return g, funcs, tree


def module_constant(tree, name):
    for node in tree.body:
        if isinstance(node, ast.Assign) and any(getattr(t, "id", None) == name for t in node.targets):
            return node.value
    raise Unsupported(f"module constant {name} not found")
