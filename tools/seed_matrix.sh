#!/bin/bash
# tools/seed_matrix.sh [ids...] : run each seeded change against the quick check of its own property.
cd /verif
OUT=/verif/seeded/MATRIX.txt
ids="$@"; [ -z "$ids" ] && ids=$(ls seeded | grep '^C')
for id in $ids; do
  [ -f seeded/$id/patch.diff ] || continue
  if [ -n "$(git -C /repo status --porcelain --untracked-files=no)" ]; then echo "/repo dirty"; exit 9; fi
  git -C /repo apply /verif/seeded/$id/patch.diff || { echo "$id apply-failed" >> $OUT; continue; }
  t0=$(date +%s)
  prop=${id#r[0-9]_}
  ./vcheck $prop > /tmp/matrix_$id.log 2>&1; rc=$?
  git -C /repo checkout -- .
  viol=$(grep -c '^VIOLATION' /tmp/matrix_$id.log)
  units=$(grep -E "^\[$prop\] .* violation " /tmp/matrix_$id.log | sed -E 's/.*violation +[0-9.]+s ([^ ]+) .*/\1/' | tr '\n' ' ')
  echo "$id head=$(git -C /repo rev-parse --short HEAD) rc=$rc violations=$viol wall=$(( $(date +%s) - t0 ))s caught_by: $units" >> $OUT
done
