#!/usr/bin/env python3
"""Regenerate /verif/MANIFEST.json from the property modules' metadata."""
import importlib
import json
import os
import sys

HERE = os.path.dirname(os.path.dirname(os.path.abspath(__file__)))
sys.path.insert(0, HERE)
ALL = [f"C{i:02d}" for i in range(1, 21)]

# Reasons for properties that have no check (yet / at all).
NOT_APPLICABLE = {
}
PENDING = "no solver-based check has been built for this property yet (work in progress; see DESIGN.md section 8)"

_T = {
    "E-CH": "bounded symbolic execution of the real functions (CrossHair + z3), exhaustive over paths within stated size bounds, counterexamples replayed concretely",
    "E-TS": "bounded model checking (z3, bit-vector state, symbolic schedule and initial state) of transition systems compiled from the current AST of the real functions; safety, stuck-state and witness queries; traces replayed on the real methods",
    "E-SYM": "path-complete symbolic execution of the current AST into z3 (mathematical integers), one unsat query per path and clause, translator validated against the real function, counterexamples replayed",
}


def _technique(engine):
    return "; ".join(_T[e] for e in engine.split("+") if e in _T)


checks, na = [], []
for pid in ALL:
    try:
        pm = importlib.import_module(f"lokyverif.props.{pid.lower()}")
    except ModuleNotFoundError:
        na.append({"property_id": pid, "reason": NOT_APPLICABLE.get(pid, PENDING)})
        continue
    if getattr(pm, "DISABLED", None):
        na.append({"property_id": pid, "reason": pm.DISABLED})
        continue
    checks.append({
        "property_id": pid,
        "quick_cmd": f"./vcheck {pid} --tier quick",
        "thorough_cmd": f"./vcheck {pid} --tier thorough",
        "evidence_file": f"/verif/evidence/{pid}.json",
        "replay_cmd_template": "./vreplay {path}",
        "engine": getattr(pm, "ENGINE", "E-CH"),
        "level_claimed": {
            "category": pm.LEVEL,
            "text": getattr(pm, "LEVEL_TEXT", pm.EXPLANATION),
            "design_ref": getattr(pm, "DESIGN_REF", f"DESIGN.md section 4, {pid}"),
        },
        "level_note": getattr(pm, "LEVEL_NOTE", "; ".join(getattr(pm, "ASSUMPTIONS", []))),
        "technique": getattr(pm, "TECHNIQUE", None) or _technique(getattr(pm, "ENGINE", "E-CH")),
    })

manifest = {
    "version": 1,
    "setup_cmd": "./setup.sh",
    "hooks": {
        "guard": "LOKY_VERIF",
        "enable": "no source hooks: the checks substitute module globals of the unmodified loky modules from outside (stubs for os/open/signal/_SemLock/Process...) and translate the AST of /repo/loky/*.py on every run",
        "baseline_off_cmd": "cd /repo && /venv/bin/python -m pytest -ra -q -p no:cacheprovider --timeout=900 --continue-on-collection-errors",
        "source_commits": [],
        "add_only": True,
    },
    "engines": [
        {"name": "E-CH", "path": "lokyverif/ech.py", "kind_free_text": "CrossHair 0.0.110 symbolic execution of real loky byte-code with stubbed environment; per-condition exhaustive ('Confirmed over all paths') + vacuity twin + concrete replay"},
        {"name": "E-SYM", "path": "lokyverif/esym.py", "kind_free_text": "AST -> z3 path-complete symbolic interpreter for loop-free kernels, translator validated on concrete vectors each run"},
        {"name": "E-TS", "path": "lokyverif/ets", "kind_free_text": "AST -> guarded transition system -> bit-vector bounded model checking (z3) with symbolic schedule/crash/timeout, traces replayed on the real code"},
    ],
    "checks": checks,
    "not_applicable": na,
    "notes": "exit 2 from a check means inconclusive (solver timeout/unknown, unsupported construct, counterexample that does not replay); it is never reported as success. Known genuine defects are listed in known_findings.json.",
}
for e in manifest["engines"]:
    e["serves_properties"] = [c["property_id"] for c in checks if e["name"] in c["engine"]]
with open(os.path.join(HERE, "MANIFEST.json"), "w") as f:
    json.dump(manifest, f, indent=1)
print(f"{len(checks)} checks, {len(na)} not applicable")
