#!/bin/bash
# tools/seed_matrix_par.sh <lanes> [ids...] : like seed_matrix.sh but each lane works in its own scratch worktree of
# /repo (outside /repo and /verif) and points the checks at it through PYTHONPATH, so /repo itself is never touched.
# Results go to seeded/MATRIX_FULL.txt (one line per seed: rc, violations, units that caught it).
cd /verif
LANES=$1; shift
ids="$@"; [ -z "$ids" ] && ids=$(ls seeded | grep -E '^(r[0-9]_)?C[0-9][0-9]$')
OUT=/verif/seeded/MATRIX_FULL.txt
: > $OUT
HEAD=$(git -C /repo rev-parse --short HEAD)
lane() {
  n=$1; shift
  wt=/tmp/mx/lane$n
  git -C /repo worktree add --detach $wt HEAD > /dev/null 2>&1 || return
  for id in "$@"; do
    git -C $wt checkout -q -- . ; git -C $wt apply /verif/seeded/$id/patch.diff 2>/dev/null || { echo "$id apply-failed" >> $OUT; continue; }
    prop=${id#r[0-9]_}
    t0=$(date +%s)
    PYTHONPATH=$wt ./vcheck $prop > /tmp/mx/$id.log 2>&1; rc=$?
    viol=$(grep -c '^VIOLATION' /tmp/mx/$id.log)
    units=$(grep -E "^\[$prop\] .* violation " /tmp/mx/$id.log | sed -E 's/.*violation +[0-9.]+s ([^ ]+) .*/\1/' | tr '\n' ' ')
    echo "$id head=$HEAD rc=$rc violations=$viol wall=$(( $(date +%s) - t0 ))s caught_by: $units" >> $OUT
  done
  git -C /repo worktree remove --force $wt
}
mkdir -p /tmp/mx
i=0; declare -a buckets
for id in $ids; do b=$(( i % LANES )); buckets[$b]="${buckets[$b]} $id"; i=$((i+1)); done
for n in $(seq 0 $((LANES-1))); do lane $n ${buckets[$n]} & done
wait
rmdir /tmp/mx 2>/dev/null
echo "done: $(wc -l < $OUT) lines" 
