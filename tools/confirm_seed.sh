#!/bin/bash
# tools/confirm_seed.sh <ID> [pytest args...] : re-run a sub-agent's demo with and without its change
# in its scratch worktree /tmp/seed/<ID>/wt and (optionally) a test subset with the change applied.
ID=$1; shift
WT=/tmp/seed/$ID/wt; OUT=/tmp/seed/$ID/out
cd $WT || exit 9
git diff > /tmp/seed/$ID/current.diff
if ! diff -q /tmp/seed/$ID/current.diff $OUT/patch.diff >/dev/null; then echo "NOTE: worktree diff differs from patch.diff"; git checkout -- . ; git apply $OUT/patch.diff || exit 9; fi
git --no-pager diff --stat | tail -n 1
run_demo() { (timeout 150 /venv/bin/python $OUT/demo.py > /tmp/seed/$ID/demo_$1.log 2>&1 < /dev/null; echo "demo $1 exit=$?"); }
run_demo with
git apply -R $OUT/patch.diff
run_demo without
git apply $OUT/patch.diff
if [ $# -gt 0 ]; then
  (timeout 3000 /venv/bin/python -m pytest -q -p no:cacheprovider --timeout=900 "$@" > /tmp/seed/$ID/tests.log 2>&1 < /dev/null; echo "tests exit=$?"; grep -E "passed|failed" /tmp/seed/$ID/tests.log | tail -n 1)
fi
