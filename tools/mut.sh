#!/bin/bash
# tools/mut.sh <patch.diff | "sed:<file>:<expr>"> Cxx [vcheck args...]
# Apply a change to /repo, run the check, always restore /repo.
set -u
CH="$1"; shift
cd /repo
if [ -n "$(git status --porcelain --untracked-files=no)" ]; then echo "/repo dirty"; exit 9; fi
trap 'git -C /repo checkout -- . ' EXIT
if [[ "$CH" == sed:* ]]; then
  IFS=: read -r _ file expr <<<"$CH"
  sed -i -E "$expr" "/repo/$file"
else
  git apply "$CH" || exit 9
fi
git --no-pager diff --stat | tail -1
if [ -z "$(git status --porcelain --untracked-files=no)" ]; then echo "mutation had no effect"; exit 9; fi
cd /verif
./vcheck "$@"
echo "rc=$?"
