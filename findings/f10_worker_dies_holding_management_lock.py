"""F10 (C01/C02/C20): a worker is SIGKILLed inside the two-statement window of its idle-time-out branch in which it
holds the cross-process processes_management_lock.  The death is detected and the futures fail, but the manager
thread then blocks for ever in shutdown_workers() on that lock: shutdown(wait=True) never returns, queues and
pipes are never closed; a later submit() on a fresh... (the executor is broken, so submit raises).
Run: /venv/bin/python findings/f10_worker_dies_holding_management_lock.py  (exit 0 = shutdown returns, 1 = hangs)"""
import os, sys, time, signal, threading
sys.path.insert(0, os.environ.get("LOKY_SRC", "/repo"))
from loky.process_executor import ProcessPoolExecutor, BrokenProcessPool

def arm():
    f = sys._getframe()
    while f is not None and f.f_code.co_name != "_process_worker":
        f = f.f_back
    lock = f.f_locals["processes_management_lock"]
    def die_holding_the_lock():
        os.kill(os.getpid(), signal.SIGKILL); time.sleep(60)
    lock.release = die_holding_the_lock      # next release = in the idle-time-out branch, lock held
    return os.getpid()

def main():
    threading.Timer(80, lambda: os._exit(3)).start()
    ex = ProcessPoolExecutor(max_workers=1, timeout=1.0)
    pid = ex.submit(arm).result(timeout=30)
    time.sleep(4)       # the worker idles, times out, takes the lock (non-blocking) and dies holding it
    try:
        ex.submit(int, "1").result(timeout=20)
        print("submit after the death succeeded?!")
    except BrokenProcessPool as e:
        print("death detected:", type(e).__name__)
    except Exception as e:
        print("other:", type(e).__name__, e)
    t = threading.Thread(target=lambda: ex.shutdown(wait=True), daemon=True)
    t.start(); t.join(15)
    mt = [x.name for x in threading.enumerate()]
    if t.is_alive():
        print("VIOLATED: shutdown(wait=True) still blocked after 15 s; threads:", mt); rc = 1
    else:
        print("HELD: shutdown returned; threads:", mt); rc = 0
    os._exit(rc)
main()
