"""F12 (C19): the depth of a worker is published (_CURRENT_DEPTH) only *after* its initializer ran.  An executor
created inside an initializer is therefore checked against depth 0 - it is accepted at any nesting depth - and the
workers it spawns from there are told depth 1 whatever the real depth is: the LOKY_MAX_DEPTH bound does not hold for
executors built in initializers.
Run: LOKY_MAX_DEPTH=1 /venv/bin/python findings/f12_depth_unpublished_in_initializer.py  (exit 0 = bound enforced, 1 = not)"""
import os, sys, tempfile, threading
os.environ["LOKY_MAX_DEPTH"] = "1"
sys.path.insert(0, os.environ.get("LOKY_SRC", "/repo"))
OUT = os.environ.setdefault("F12_OUT", tempfile.mkdtemp(prefix="f12_"))

def try_nested(tag):
    from loky.process_executor import ProcessPoolExecutor, LokyRecursionError, _CURRENT_DEPTH
    try:
        ex = ProcessPoolExecutor(max_workers=1)
        seen = ex.submit(read_depth).result(timeout=30)
        ex.shutdown(kill_workers=True)
        res = f"created(depth seen here={_CURRENT_DEPTH}, nested worker depth={seen})"
    except LokyRecursionError:
        res = "LokyRecursionError"
    with open(os.path.join(OUT, tag), "w") as f:
        f.write(res)
    return res

def read_depth():
    import loky.process_executor as pe
    return pe._CURRENT_DEPTH

def main():
    threading.Timer(80, lambda: os._exit(3)).start()
    from loky.process_executor import ProcessPoolExecutor
    ex = ProcessPoolExecutor(max_workers=1, initializer=try_nested, initargs=("initializer",))
    in_task = ex.submit(try_nested, "task").result(timeout=60)
    in_init = open(os.path.join(OUT, "initializer")).read()
    ex.shutdown(kill_workers=True)
    print("LOKY_MAX_DEPTH=1, worker at depth 1: nested executor from a task ->", in_task)
    print("LOKY_MAX_DEPTH=1, worker at depth 1: nested executor from the initializer ->", in_init)
    ok = in_task == "LokyRecursionError" and in_init == "LokyRecursionError"
    print("HELD" if ok else "VIOLATED")
    os._exit(0 if ok else 1)
main()
