"""F6 (C01/C02/C06): a future cancelled by the user while still pending makes the executor manager
thread die with InvalidStateError when the pool breaks (terminate_broken) or is shut down with
kill_workers=True (flag_executor_shutting_down): the remaining futures are never failed.

Run: /venv/bin/python /verif/findings/f6_cancelled_pending_future.py [kill|shutdown]
exit 0 = every future resolved; exit 1 = some future still pending after 15 s (defect present).
"""
import os
import signal
import sys
import time

from loky.process_executor import ProcessPoolExecutor


def sleeper(t):
    time.sleep(t)
    return t


def main(mode):
    ex = ProcessPoolExecutor(max_workers=1)
    fs = [ex.submit(sleeper, 30) for _ in range(8)]   # 1 running, 3 in the call queue, 4 still pending
    time.sleep(1.0)
    cancelled = [f for f in fs if f.cancel()]
    print("cancelled", len(cancelled), "futures that were still pending")
    assert cancelled, "nothing could be cancelled: scenario not reached"
    if mode == "kill":
        for p in list(ex._processes.values()):
            os.kill(p.pid, signal.SIGKILL)
    else:
        import threading
        threading.Thread(target=lambda: ex.shutdown(wait=True, kill_workers=True), daemon=True).start()
    deadline = time.time() + 15
    while time.time() < deadline and not all(f.done() for f in fs):
        time.sleep(0.1)
    left = [i for i, f in enumerate(fs) if not f.done()]
    print("unresolved futures after 15 s:", left)
    for p in list(ex._processes.values()):
        try:
            os.kill(p.pid, signal.SIGKILL)
        except OSError:
            pass
    sys.stdout.flush()
    os._exit(1 if left else 0)


if __name__ == "__main__":
    main(sys.argv[1] if len(sys.argv) > 1 else "kill")
