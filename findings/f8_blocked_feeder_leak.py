"""F8 (C20/C13): the pool breaks (or shutdown(kill_workers=True) runs) while the queue feeder thread is blocked sending a
task larger than the pipe buffer: before the fix the feeder thread, the call-queue pipe and its semaphores leak on
every such lifecycle, because the parent keeps its own copy of the reading end open (cf. cpython gh-94777).
Run: /venv/bin/python findings/f8_blocked_feeder_leak.py   (exit 0 = no accumulation, 1 = leak)"""
import os, sys, time, threading, signal
sys.path.insert(0, os.environ.get("LOKY_SRC", "/repo"))
import loky
from loky.process_executor import ProcessPoolExecutor, BrokenProcessPool

def fds():
    return len(os.listdir("/proc/self/fd"))

def busy(t):
    time.sleep(t); return os.getpid()

def ident(x):
    return len(x)

def cycle():
    ex = ProcessPoolExecutor(max_workers=1)
    pid = ex.submit(os.getpid).result()
    f1 = ex.submit(busy, 30)
    big = b"x" * (5 * 1024 * 1024)
    f2 = ex.submit(ident, big)          # feeder blocks in send_bytes: worker is busy, pipe buffer is 64k
    time.sleep(1.0)
    os.kill(pid, signal.SIGKILL)
    for f in (f1, f2):
        try:
            f.result(timeout=20)
        except BrokenProcessPool:
            pass
    ex.shutdown(wait=True)
    del ex, f1, f2, big
    import gc; gc.collect()

def main():
    threading.Timer(100, lambda: os._exit(3)).start()
    cycle()
    time.sleep(1)
    base = (fds(), threading.active_count())
    out = [base]
    for _ in range(3):
        cycle(); time.sleep(1)
        out.append((fds(), threading.active_count()))
    print("fds/threads after lifecycles 1..4:", out, [t.name for t in threading.enumerate()])
    ok = out[-1] == base
    print("HELD" if ok else "LEAK")
    os._exit(0 if ok else 1)

main()
