"""F13 (C14): Condition.notify() can be consumed by a waiter that times out at the same instant, leaving a waiter
*without* timeout asleep although the notify found sleepers ("notify ... does wake one if some waiter's timeout is
not expiring").  The 19-step schedule below was found by the solver (unit cond.2w_single_notify, clause A3) and is
replayed here on loky's real Condition.wait / Condition.notify code, with the C SemLock replaced by its Python twin
and a baton scheduler imposing the schedule (real sem_wait races cannot be forced from outside).
Run: /verif/.venv/bin/python /verif/findings/f13_lost_notify.py   (exit 0 = waiter 2 woken, 1 = notification lost)"""
import os
import sys
sys.path.insert(0, os.path.dirname(os.path.dirname(os.path.abspath(__file__))))
from lokyverif.ets.mcond import CondScenario          # noqa: E402
from lokyverif.ets.units_cond import observe          # noqa: E402
from lokyverif.ets.replay_cond import Divergence      # noqa: E402

SCHEDULE = """W2 lock.sl.acquire:ok
W2 sleeping.sl.release:ok
W2 lock.sl.release:ok
W1 lock.sl.acquire:ok
W1 sleeping.sl.release:ok
W1 lock.sl.release:ok
W1 waitsem.sl.acquire:timeout
F obs.await_all_registered:obs
F lock.sl.acquire:ok
F waitsem.sl.acquire:wouldblock
F woken.sl.acquire:wouldblock
W1 woken.sl.release:ok
F sleeping.sl.acquire:ok
F waitsem.sl.release:ok
F woken.sl.acquire:ok"""


def main():
    cfg = dict(waiters=2, notifiers=0, final="notify", fixed={"in.timeout.1": 1.0, "in.timeout.2": None})
    sc = CondScenario(**cfg)
    trace = []
    for line in SCHEDULE.splitlines():
        th, lab = line.split()
        objmeth, outcome = lab.rsplit(":", 1)
        obj, meth = objmeth.rsplit(".", 1)
        trace.append({"thread": th, "obj": obj, "method": meth, "outcome": outcome, "label": lab})
    # after the prefix above the real code decides by itself: on the unrepaired code the notifier takes its token
    # back (waitsem.acquire -> ok) and returns; on the repaired code it loops and wakes waiter 2
    tail_lost = [("F", "waitsem.sl", "acquire", "ok"), ("F", "lock.sl", "release", "ok"),
                 ("W1", "lock.sl", "acquire", "ok"), ("W1", "lock.sl", "release", "ok")]
    lost = trace + [{"thread": t, "obj": o, "method": m, "outcome": out, "label": f"{o}.{m}:{out}"} for t, o, m, out in tail_lost]
    try:
        o = observe(sc, cfg, {"in.timeout.1": True, "in.timeout.2": False}, lost)
    except Divergence as e:
        print("the real code does not follow the 'lost notification' schedule any more:", e)
        print("HELD (the notifier did not take its token back while a sleeper was left)")
        return 0
    print("observed on the real Condition:", {k: v for k, v in o.items() if k.startswith("g.ret") or k in ("g.notified", "g.tokens")})
    if o["g.notified"] and o["g.ret.2"] == 0:
        print("VIOLATED: notify() returned, waiter 1 timed out, waiter 2 (no timeout) is still asleep")
        return 1
    print("HELD")
    return 0


if __name__ == "__main__":
    sys.exit(main())
