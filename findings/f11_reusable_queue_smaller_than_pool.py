"""F11 (C08, delivery clause): the reusable executor sizes its call queue from cpu_count(), not from max_workers
(2*cpu_count()+1 slots).  The manager thread hands out at most that many tasks per wake-up and is only woken again
by a result, so with max_workers > 2*cpu_count()+1 (over-subscription, e.g. IO-bound tasks in a 1-CPU container)
fewer than max_workers long tasks run simultaneously although max_workers workers are idle.
Run: /venv/bin/python findings/f11_reusable_queue_smaller_than_pool.py  (exit 0 = max_workers run together, 1 = fewer)"""
import os, sys, time, threading
os.environ["LOKY_MAX_CPU_COUNT"] = "1"
sys.path.insert(0, os.environ.get("LOKY_SRC", "/repo"))
from loky import get_reusable_executor

def long_task(t):
    s = time.time(); time.sleep(t); return (s, time.time(), os.getpid())

def main():
    threading.Timer(80, lambda: os._exit(3)).start()
    n = 6
    ex = get_reusable_executor(max_workers=n, timeout=60)
    list(ex.map(int, "1" * n))                      # warm up: all workers exist
    futs = [ex.submit(long_task, 3.0) for _ in range(n)]
    spans = [f.result(timeout=60) for f in futs]
    t = max(s for s, e, p in spans)
    peak = max(sum(1 for s, e, p in spans if s <= x < e) for x in [s for s, e, p in spans])
    print("queue slots:", ex._call_queue._maxsize, "max_workers:", n, "peak simultaneous long tasks:", peak)
    ex.shutdown(kill_workers=True)
    os._exit(0 if peak == n else 1)
main()
