"""F1 / F2 (C01, C05, C07): a worker leaves on its own (idle time-out / memory-leak exit) while work is
pending, after the user released the executor.

F1: `shutdown(wait=False)` dropped the references the manager thread's re-spawn path needs
    -> TypeError in ExecutorManagerThread, remaining futures never resolve.   (mode: shutdown)
F2: the executor object was garbage collected -> nobody can re-spawn workers.   (mode: gc)

Deterministic: the initializer makes every worker "leak" after each task, which takes the same
announcement path as an idle time-out.
Run: /venv/bin/python /verif/findings/f1_f2_worker_exit_after_release.py [shutdown|gc]
exit 0 = all futures resolved; exit 1 = futures still pending after 20 s (defect present).
"""
import gc
import os
import sys
import time

from loky.process_executor import ProcessPoolExecutor


def init():
    import loky.process_executor as pe
    pe._MAX_MEMORY_LEAK_SIZE = -10**12
    pe._MEMORY_LEAK_CHECK_DELAY = 0.0


def task(i):
    time.sleep(0.05)
    return i


def main(mode):
    ex = ProcessPoolExecutor(max_workers=1, initializer=init)
    fs = [ex.submit(task, i) for i in range(8)]
    if mode == "shutdown":
        ex.shutdown(wait=False)
    else:
        del ex
        gc.collect()
    deadline = time.time() + 20
    while time.time() < deadline and not all(f.done() for f in fs):
        time.sleep(0.1)
    done = [f.done() for f in fs]
    print("done:", done)
    sys.stdout.flush()
    os.system("pkill -9 -f '[p]open_loky_posi[x]' >/dev/null 2>&1")
    os._exit(0 if all(done) else 1)


if __name__ == "__main__":
    import warnings
    warnings.simplefilter("ignore")
    main(sys.argv[1] if len(sys.argv) > 1 else "shutdown")
