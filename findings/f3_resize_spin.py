"""F3 (C01/C10): _resize spins for ever when a process of its final snapshot is dead.

Run: /venv/bin/python /verif/findings/f3_resize_spin.py
exit 0 = get_reusable_executor returned; exit 1 = still spinning after 20 s (defect present).
"""
import faulthandler
import os
import signal
import sys
import threading
import time

from loky import get_reusable_executor


def main():
    ex = get_reusable_executor(max_workers=1, timeout=100)
    ex.submit(int).result()
    orig = ex._adjust_process_count

    def adjust_then_kill():
        orig()
        newest = list(ex._processes.values())[-1]
        os.kill(newest.pid, signal.SIGKILL)  # a worker dies right after being spawned
        newest._popen.wait(5)

    ex._adjust_process_count = adjust_then_kill
    done = threading.Event()

    def call():
        try:
            get_reusable_executor(max_workers=3, timeout=100)
        finally:
            done.set()

    t = threading.Thread(target=call, daemon=True)
    t.start()
    ok = done.wait(20)
    print("returned" if ok else "STILL SPINNING in _resize after 20 s")
    if not ok:
        faulthandler.dump_traceback(all_threads=True)
    sys.stdout.flush()
    os._exit(0 if ok else 1)


if __name__ == "__main__":
    main()
