"""F9 (C02/C01): after every worker left on its idle time-out, submit() re-spawns a worker; before the fix the manager
thread was woken *before* the spawn and kept waiting on the old set of sentinels, so a crash of the new worker was
never detected (max_workers=1) and its future stayed RUNNING for ever.
Run: /venv/bin/python findings/f9_unwatched_respawned_worker.py   (exit 0 = death detected, 1 = future hangs)"""
import os, sys, time, signal, threading
sys.path.insert(0, os.environ.get("LOKY_SRC", "/repo"))
from loky.process_executor import ProcessPoolExecutor, BrokenProcessPool
from concurrent.futures import TimeoutError as FTimeout

def crash():
    time.sleep(0.3)
    os.kill(os.getpid(), signal.SIGKILL)

def main():
    threading.Timer(80, lambda: os._exit(3)).start()
    ex = ProcessPoolExecutor(max_workers=1, timeout=1)
    assert ex.submit(int, "7").result(timeout=30) == 7
    time.sleep(3.5)                      # every worker leaves on its idle time-out
    assert len(ex._processes) == 0, ex._processes
    f = ex.submit(crash)                 # re-spawns the workers; the task takes its worker down
    try:
        f.result(timeout=15)
        print("unexpected result"); rc = 1
    except BrokenProcessPool as e:
        print("HELD: death detected:", type(e).__name__); rc = 0
    except FTimeout:
        print("VIOLATED: the future is still", f._state, "15 s after its worker was SIGKILLed; broken =", ex._flags.broken); rc = 1
    for p in list(ex._processes.values()):
        try: os.kill(p.pid, signal.SIGKILL)
        except OSError: pass
    os._exit(rc)
main()
