# F14 (fixed in /repo 6d7b4b4): an instance built by wrap_non_picklable_objects(cls) was not callable although cls defines
# __call__, and became callable only after a pickle round trip.  Run with cwd=/repo: prints True/6/True 6 on the fixed
# tree; on 1c74634 the first call raises TypeError.
from loky import wrap_non_picklable_objects
class K:
    def __init__(self, a): self.a = a
    def __call__(self, x): return self.a * x
W = wrap_non_picklable_objects(K)
i = W(3)
print("callable(ref)=", callable(K(3)), "callable(wrapped instance)=", callable(i))
try: print(i(2))
except Exception as e: print("call failed:", type(e).__name__, e)
import pickle
j = pickle.loads(pickle.dumps(i)); print("after one round trip callable=", callable(j), j(2))
