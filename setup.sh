#!/bin/bash
# Build the overlay venv used by every check: /venv (repo deps) + /repo on the path
# + crosshair-tool / z3-solver / jsonschema from the offline wheelhouse.
set -e
cd "$(dirname "$0")"
exec 9>/tmp/.lokyverif-setup.lock
flock 9
if [ -x .venv/bin/python ] && .venv/bin/python -c "import crosshair, z3, jsonschema, loky" 2>/dev/null; then
  exit 0
fi
rm -rf .venv
/venv/bin/python -m venv .venv
SP=$(.venv/bin/python -c "import sysconfig; print(sysconfig.get_paths()['purelib'])")
printf '/venv/lib/python3.12/site-packages\n/repo\n' > "$SP/_overlay.pth"
PIP_NO_INDEX=1 .venv/bin/pip install -q --no-index --find-links /opt/veriftools/wheels crosshair-tool z3-solver jsonschema cvc5 >/dev/null 2>&1 || \
PIP_NO_INDEX=1 .venv/bin/pip install -q --no-index --find-links /opt/veriftools/wheels crosshair-tool z3-solver jsonschema
.venv/bin/python -c "import crosshair, z3, jsonschema, loky"
